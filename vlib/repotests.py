"""Run the repository's own test-suite as a workload under universal monitors."""
import json
import os
import subprocess
import sys
import tempfile

HERE = os.path.dirname(os.path.dirname(os.path.abspath(__file__)))


def run_under_monitors(ctx, monitors, timeout=600, select=None):
    repo = os.path.realpath(os.environ.get('VERIF_REPO', '/repo'))
    fd, out = tempfile.mkstemp(prefix='verif-mon-', suffix='.json')
    os.close(fd)
    env = dict(os.environ)
    env['PYTHONPATH'] = HERE + os.pathsep + repo + os.pathsep + env.get('PYTHONPATH', '')
    env['VERIF_MONITORS'] = ','.join(monitors)
    env['VERIF_MONITOR_OUT'] = out
    env['VERIF_MONITOR_PROP'] = ctx.prop_id
    env['PYTHONDONTWRITEBYTECODE'] = '1'
    cmd = [sys.executable, '-m', 'pytest', '-q', '-x', '--no-header', '-p', 'no:cacheprovider', '-p', 'monitors.pytest_plugin',
           '--timeout=600', '--continue-on-collection-errors', 'tests']
    cmd.remove('-x')
    if select:
        cmd += ['-k', select]
    try:
        p = subprocess.run(cmd, cwd=repo, env=env, stdout=subprocess.PIPE, stderr=subprocess.STDOUT, timeout=timeout,
                           stdin=subprocess.DEVNULL)
        tail = p.stdout.decode('utf-8', 'replace')[-1500:]
    except subprocess.TimeoutExpired:
        ctx.inconclusive('repo test-suite under monitors timed out')
        return
    try:
        with open(out) as f:
            res = json.load(f)
    except Exception:
        ctx.inconclusive('repo test-suite under monitors produced no observation file: ' + tail[-400:].replace('\n', ' | '))
        return
    finally:
        try:
            os.unlink(out)
        except OSError:
            pass
    # merge into ctx (prefixing counters so the origin stays visible)
    ctx.evaluations += res['evaluations']
    ctx.nontrivial.update(res['nontrivial'])
    for k, v in res['counters'].items():
        ctx.count('repo_tests.' + k, v)
    for k, v in res['seen'].items():
        for item in v:
            ctx.seen('repo_tests.' + k, item)
    for k, v in res['violations'].items():
        d = ctx.violations.setdefault(k, {'count': 0, 'cases': []})
        d['count'] += v['count']
        d['cases'].extend(v['cases'][:max(0, 3 - len(d['cases']))])
    for r in res['inconclusive']:
        ctx.inconclusive(r)
    for n in res.get('notes', []):
        ctx.note(n)
    ctx.count('repo_tests.sessions')
    ctx.note('repo tests: ' + tail.strip().splitlines()[-1][:200])
