"""Per-shard observation context handed to every property workload.

Everything a workload observes goes through this object so that the driver can
merge shards and write evidence from *measured* numbers only.
"""
import hashlib
import json
import random
import time


def short_hash(obj):
    if not isinstance(obj, (str, bytes)):
        obj = json.dumps(obj, sort_keys=True, default=repr)
    if isinstance(obj, str):
        obj = obj.encode('utf-8', 'surrogatepass')
    return hashlib.md5(obj).hexdigest()[:12]


def jsonable(obj, depth=0):
    """Best-effort conversion of a case description to JSON."""
    if depth > 8:
        return repr(obj)[:200]
    if obj is None or isinstance(obj, (bool, int, str)):
        return obj
    if isinstance(obj, float):
        if obj != obj or obj in (float('inf'), float('-inf')):
            return repr(obj)
        return obj
    if isinstance(obj, (list, tuple)):
        return [jsonable(x, depth + 1) for x in obj]
    if isinstance(obj, (set, frozenset)):
        return sorted((jsonable(x, depth + 1) for x in obj), key=repr)
    if isinstance(obj, dict):
        return {str(k): jsonable(v, depth + 1) for k, v in obj.items() if not str(k).startswith('_rng')}
    return repr(obj)[:400]


class Ctx:
    MAX_CASES_PER_KEY = 3
    MAX_SAMPLES = 4

    def __init__(self, prop_id, tier, seed, shard, nshards, deadline=None):
        self.prop_id = prop_id
        self.tier = tier
        self.seed = seed
        self.shard = shard
        self.nshards = nshards
        self.rng = random.Random(seed * 1000003 + shard * 7919 + 17)
        self.evaluations = 0
        self.nontrivial = set()
        self.counters = {}
        self.seen_sets = {}
        self.samples = []
        self.violations = {}      # key -> {'count': n, 'cases': [...]}
        self.inconclusive_reasons = []
        self.undecided_reasons = []
        self.notes = []
        self.t0 = time.time()
        self.deadline = deadline  # soft deadline (epoch seconds) for workloads that loop

    # ---- budget -----------------------------------------------------------
    def time_left(self):
        if self.deadline is None:
            return 1e9
        return self.deadline - time.time()

    def quick(self):
        return self.tier == 'quick'

    def pick(self, quick, thorough):
        return quick if self.tier == 'quick' else thorough

    # ---- observations -----------------------------------------------------
    def case(self, nontrivial_key=None, n=1):
        """Count one evaluated case; if it is non-trivial by the property's
        rule pass a canonical key (hashed for distinctness)."""
        self.evaluations += n
        if nontrivial_key is not None:
            self.nontrivial.add(short_hash(nontrivial_key))

    def count(self, name, n=1):
        self.counters[name] = self.counters.get(name, 0) + n

    def seen(self, setname, item):
        s = self.seen_sets.setdefault(setname, set())
        s.add(item if isinstance(item, str) else json.dumps(jsonable(item), sort_keys=True))

    def sample(self, obj):
        if len(self.samples) < self.MAX_SAMPLES:
            self.samples.append(jsonable(obj))

    def violation(self, key, case, detail):
        """Record a violation. `key` names the mechanism (never a hash or random
        value); `case` must be replayable by the module's replay()."""
        v = self.violations.setdefault(key, {'count': 0, 'cases': []})
        v['count'] += 1
        if len(v['cases']) < self.MAX_CASES_PER_KEY:
            v['cases'].append({'case': jsonable(case), 'detail': jsonable(detail)})

    def inconclusive(self, reason):
        if reason not in self.inconclusive_reasons:
            self.inconclusive_reasons.append(reason)

    def undecided(self, reason):
        """One CASE could not be decided (a scheduling gate expired, the forced order did not come about): it is not counted
        as evaluated, it is listed in the evidence, and the run stays conclusive only while such cases remain few
        (the driver's rule: at most max(3, 5%) of the cases)."""
        self.counters['undecided_cases'] = self.counters.get('undecided_cases', 0) + 1
        if len(self.undecided_reasons) < 20:
            self.undecided_reasons.append(reason)

    def note(self, text):
        if len(self.notes) < 20:
            self.notes.append(text)

    def emergency_dump_and_exit(self):
        """for watchdogs inside a workload: the main thread is stuck, write what was observed and leave"""
        import json as _json, os as _os
        result = self.dump()
        result['status'] = 'emergency-exit'
        out = getattr(self, 'out_path', None)
        if out:
            with open(out + '.tmp', 'w') as f:
                _json.dump(result, f)
            _os.replace(out + '.tmp', out)
        # (no exit handlers run from here: the worker's private working directory is removed by hand)
        try:
            import shutil as _shutil
            cwd = _os.getcwd()
            if _os.path.basename(cwd).startswith('verif-cwd-'):
                _os.chdir('/')
                _shutil.rmtree(cwd, ignore_errors=True)
        except Exception:
            pass
        _os._exit(0)

    # ---- serialisation ----------------------------------------------------
    def dump(self):
        return {
            'prop': self.prop_id, 'shard': self.shard,
            'evaluations': self.evaluations,
            'nontrivial': sorted(self.nontrivial),
            'counters': self.counters,
            'seen': {k: sorted(v) for k, v in self.seen_sets.items()},
            'samples': self.samples,
            'violations': self.violations,
            'inconclusive': self.inconclusive_reasons,
            'undecided': self.undecided_reasons,
            'notes': self.notes,
            'wall_s': round(time.time() - self.t0, 3),
        }
