"""check driver: shards a property's workload over fresh interpreters, merges what
the monitors observed, applies the known-findings file, writes evidence, and
turns the three-valued verdict into the exit code (0 held, 1 violated, 2 inconclusive).
"""
import argparse
import concurrent.futures as cf
import importlib
import json
import os
import shutil
import subprocess
import sys
import tempfile
import time

HERE = os.path.dirname(os.path.dirname(os.path.abspath(__file__)))
PY = os.environ.get('VERIF_PYTHON', '/venv/bin/python')


def load_known(prop):
    path = os.path.join(HERE, 'known_findings.json')
    if not os.path.exists(path):
        return []
    with open(path) as f:
        data = json.load(f)
    return [e for e in data.get('findings', []) if e.get('property') == prop]


def run_worker(prop, tier, seed, shard, nshards, out, budget, hard, replay=None):
    cmd = [PY, '-m', 'vlib.worker', prop, tier, str(seed), str(shard), str(nshards), out,
           '--budget', str(budget)]
    if replay:
        cmd += ['--replay', replay]
    env = dict(os.environ)
    env.setdefault('PYTHONHASHSEED', '0')
    env['PYTHONDONTWRITEBYTECODE'] = '1'
    env['VERIF_HARD_TIMEOUT'] = str(hard)
    env['PEDAL_EDU_PEDAL_VERIF'] = '1'
    log = out + '.log'
    t0 = time.time()
    env.setdefault('MALLOC_ARENA_MAX', '4')
    rss_cap_kb = int(float(os.environ.get('VERIF_MEM_GB', '3')) * 1024 * 1024)
    try:
        with open(log, 'wb') as lf:
            proc = subprocess.Popen(cmd, cwd=HERE, env=env, stdout=lf, stderr=subprocess.STDOUT, stdin=subprocess.DEVNULL)
            deadline = time.time() + hard + 30
            rc = None
            while True:
                try:
                    rc = proc.wait(timeout=0.5)
                    break
                except subprocess.TimeoutExpired:
                    pass
                if time.time() > deadline:
                    proc.kill(); proc.wait(); rc = 'timeout'
                    break
                try:    # resident-set watchdog: a runaway workload must not take the machine down
                    with open('/proc/%d/status' % proc.pid) as st:
                        for line in st:
                            if line.startswith('VmRSS:'):
                                if int(line.split()[1]) > rss_cap_kb:
                                    proc.kill(); proc.wait(); rc = 'rss-cap'
                                break
                    if rc is not None:
                        break
                except OSError:
                    pass
    except OSError as e:
        rc = 'spawn-failed: %r' % e
    res = None
    if os.path.exists(out):
        try:
            with open(out) as f:
                res = json.load(f)
        except Exception:
            res = None
    tail = ''
    try:
        with open(log, 'rb') as lf:
            lf.seek(max(0, os.path.getsize(log) - 3000))
            tail = lf.read().decode('utf-8', 'replace')
    except Exception:
        pass
    return {'shard': shard, 'rc': rc, 'result': res, 'tail': tail, 'wall': time.time() - t0}


def merge(results):
    m = {'evaluations': 0, 'nontrivial': set(), 'counters': {}, 'seen': {}, 'samples': [],
         'violations': {}, 'inconclusive': [], 'undecided': [], 'notes': [], 'shards_ok': 0, 'shards': len(results)}
    for r in results:
        res = r['result']
        if res is None:
            m['inconclusive'].append('shard %s produced no result (rc=%s): %s'
                                     % (r['shard'], r['rc'], r['tail'][-400:].replace('\n', ' | ')))
            continue
        m['shards_ok'] += 1
        m['evaluations'] += res['evaluations']
        m['nontrivial'].update(res['nontrivial'])
        for k, v in res['counters'].items():
            m['counters'][k] = m['counters'].get(k, 0) + v
        for k, v in res['seen'].items():
            m['seen'].setdefault(k, set()).update(v)
        for s in res['samples']:
            if len(m['samples']) < 6:
                m['samples'].append(s)
        for k, v in res['violations'].items():
            d = m['violations'].setdefault(k, {'count': 0, 'cases': []})
            d['count'] += v['count']
            for c in v['cases']:
                if len(d['cases']) < 3:
                    d['cases'].append(c)
        for reason in res['inconclusive']:
            if reason not in m['inconclusive']:
                m['inconclusive'].append(reason)
        for n in res.get('notes', []):
            if len(m['notes']) < 10:
                m['notes'].append(n)
        for u in res.get('undecided', []):
            if len(m['undecided']) < 30:
                m['undecided'].append(u)
    return m


def main(argv=None):
    ap = argparse.ArgumentParser()
    ap.add_argument('prop')
    ap.add_argument('--tier', default=os.environ.get('VERIF_TIER') or 'quick', choices=['quick', 'thorough'])
    ap.add_argument('--replay', default=None)
    ap.add_argument('--shards', type=int, default=None)
    ap.add_argument('--jobs', type=int, default=int(os.environ.get('VERIF_JOBS', '16')))
    ap.add_argument('--budget', type=float, default=None, help='soft seconds per shard')
    ap.add_argument('--no-evidence', action='store_true')
    args = ap.parse_args(argv)
    prop = args.prop.upper()
    tier = args.tier
    try:
        seed = int(os.environ.get('VERIF_SEED', '0') or 0)
    except ValueError:
        seed = 0
    sys.path.insert(0, HERE)
    mod = importlib.import_module('props.' + prop.lower())
    nshards = args.shards or mod.SHARDS[tier]
    budget = args.budget or mod.BUDGET[tier]
    hard = budget * 3 + 90
    t0 = time.time()
    scratch = tempfile.mkdtemp(prefix='verif-%s-' % prop)
    exit_code = 2
    try:
        # ---- replay of a single stored case -------------------------------
        if args.replay:
            out = os.path.join(scratch, 'replay.json')
            r = run_worker(prop, tier, seed, 0, 1, out, budget, hard, replay=os.path.abspath(args.replay))
            res = r['result']
            if res is None:
                print('INCONCLUSIVE property=%s reason=replay worker failed: %s' % (prop, r['tail'][-500:]))
                return 2
            if res['violations']:
                for k, v in res['violations'].items():
                    print('REPLAY reproduces key=%s count=%d' % (k, v['count']))
                    print(json.dumps(v['cases'][0], indent=1)[:3000])
                print('VIOLATION property=%s replay=%s' % (prop, args.replay))
                return 1
            if res['inconclusive']:
                print('INCONCLUSIVE property=%s reason=%s' % (prop, '; '.join(res['inconclusive'])[:500]))
                return 2
            print('REPLAY: no violation reproduced (%d evaluations)' % res['evaluations'])
            return 0

        # ---- known findings: replay each listed witness -------------------
        known = load_known(prop)
        known_keys = {e['key'] for e in known if e.get('status') == 'known'}
        reproduced = {}
        kjobs = []
        for i, e in enumerate(known):
            if e.get('status') != 'known' or 'witness' not in e:
                continue
            wf = os.path.join(scratch, 'witness%d.json' % i)
            with open(wf, 'w') as f:
                json.dump({'cases': [e['witness']]}, f)
            kjobs.append((e, wf, os.path.join(scratch, 'witness%d.out.json' % i)))

        jobs = []
        with cf.ThreadPoolExecutor(max_workers=args.jobs) as ex:
            kfuts = [(e, ex.submit(run_worker, prop, tier, seed, 0, 1, out, budget, hard, wf))
                     for e, wf, out in kjobs]
            futs = [ex.submit(run_worker, prop, tier, seed, s, nshards,
                              os.path.join(scratch, 'shard%d.json' % s), budget, hard)
                    for s in range(nshards)]
            results = [f.result() for f in futs]
            for e, f in kfuts:
                r = f.result()
                res = r['result']
                import fnmatch as _fn
                if res is not None and any(k == e['key'] or _fn.fnmatchcase(k, e['key']) for k in res['violations']):
                    reproduced[e['key']] = e

        m = merge(results)
        # ---- classify violations ------------------------------------------
        new = {}
        known_hits = {}
        import fnmatch
        for k, v in m['violations'].items():
            # a known key may use * wildcards for the parts that are not the mechanism (e.g. operand classes)
            pat = next((kk for kk in sorted(known_keys) if kk == k or fnmatch.fnmatchcase(k, kk)), None)
            if pat is not None:
                known_hits[pat] = known_hits.get(pat, 0) + v['count']
                for e in known:
                    if e['key'] == pat and e.get('status') == 'known':
                        reproduced.setdefault(pat, e)
            else:
                new[k] = v
        for k, e in sorted(reproduced.items()):
            print('KNOWN-FINDING: property=%s key=%s %s' % (prop, k, e.get('what', '')))

        # runs against a scratch copy of the repository (seeded changes) must not leave replay files among the evidence
        if os.environ.get('VERIF_REPO') and os.path.realpath(os.environ['VERIF_REPO']) != '/repo':
            replay_dir = os.path.join(tempfile.gettempdir(), 'verif-replays-scratch')
        else:
            replay_dir = os.path.join(HERE, 'evidence', 'replays')
        os.makedirs(replay_dir, exist_ok=True)
        viol_lines = []
        for k, v in sorted(new.items()):
            from vlib.ctx import short_hash
            path = os.path.join(replay_dir, '%s-%s.json' % (prop, short_hash(k)))
            with open(path, 'w') as f:
                json.dump({'property': prop, 'key': k, 'count': v['count'], 'cases': v['cases'],
                           'seed': seed, 'tier': tier}, f, indent=1)
            viol_lines.append((k, v, path))

        min_nt = mod.MIN_NONTRIVIAL[tier] if hasattr(mod, 'MIN_NONTRIVIAL') else 2
        n_und = m['counters'].get('undecided_cases', 0)
        if n_und > max(3, 0.05 * (m['evaluations'] + n_und)):
            m['inconclusive'].append('%d of %d cases could not be decided, e.g. %s' % (n_und, m['evaluations'] + n_und, '; '.join(m['undecided'][:2])[:600]))
        if new:
            verdict = 'violated'
        elif m['inconclusive']:
            verdict = 'inconclusive'
        elif len(m['nontrivial']) < max(2, min_nt) or m['evaluations'] == 0:
            verdict = 'inconclusive'
            m['inconclusive'].append('only %d distinct non-trivial cases observed (need %d)'
                                     % (len(m['nontrivial']), max(2, min_nt)))
        else:
            verdict = 'held'
        # required monitors must have fired
        for cname in getattr(mod, 'REQUIRED_COUNTERS', {}).get(tier, []):
            if not m['counters'].get(cname) and verdict == 'held':
                verdict = 'inconclusive'
                m['inconclusive'].append('required monitor counter %r is zero' % cname)

        wall = round(time.time() - t0, 2)
        # ---- summary --------------------------------------------------------
        print('== %s [%s] seed=%d shards=%d/%d wall=%.1fs' % (prop, tier, seed, m['shards_ok'], m['shards'], wall))
        print('   evaluations=%d distinct_nontrivial=%d' % (m['evaluations'], len(m['nontrivial'])))
        for k in sorted(m['counters']):
            print('   counter %-40s %d' % (k, m['counters'][k]))
        for k in sorted(m['seen']):
            items = sorted(m['seen'][k])
            print('   seen    %-40s %d distinct e.g. %s' % (k, len(items), ', '.join(items[:6])[:160]))
        if known_hits:
            print('   known-finding hits in workload: %s' % json.dumps(known_hits))
        for n in m['notes']:
            print('   note: %s' % n[:2000])
        for r in m['inconclusive'][:5]:
            print('   inconclusive-reason: %s' % r[:1200])
        for r in m['undecided'][:5]:
            print('   undecided-case: %s' % r[:600])

        # ---- evidence -------------------------------------------------------
        if not args.no_evidence:
            ev = {
                'property_id': prop, 'tier': tier, 'seed': seed,
                'level': getattr(mod, 'LEVEL', 'exploration'),
                'coverage': {
                    'evaluations': m['evaluations'],
                    'distinct_nontrivial': len(m['nontrivial']),
                    'rule': mod.RULE,
                    'samples': m['samples'] or ['(none)'],
                    'exhaustive': bool(getattr(mod, 'EXHAUSTIVE', {}).get(tier, False)),
                    'counters': m['counters'],
                    'observed_sets': {k: {'distinct': len(v), 'examples': sorted(v)[:40]}
                                      for k, v in m['seen'].items()},
                    'shards': m['shards'], 'shards_completed': m['shards_ok'],
                    'verdict': verdict,
                    'known_findings_reproduced': sorted(reproduced),
                    'known_finding_hits': known_hits,
                    'new_violation_keys': sorted(new),
                    'inconclusive_reasons': m['inconclusive'][:10],
                    'undecided_cases': {'count': m['counters'].get('undecided_cases', 0), 'examples': m['undecided'][:10]},
                },
                'assumptions': list(getattr(mod, 'ASSUMPTIONS', [])),
                'wall_s': wall,
                'violations': sum(v['count'] for v in new.values()),
            }
            os.makedirs(os.path.join(HERE, 'evidence'), exist_ok=True)
            with open(os.path.join(HERE, 'evidence', '%s.json' % prop), 'w') as f:
                json.dump(ev, f, indent=1, sort_keys=True)
                f.write('\n')

        if verdict == 'violated':
            for k, v, path in viol_lines:
                print('   violation key=%s count=%d first=%s' % (k, v['count'],
                      json.dumps(v['cases'][0])[:1500]))
            for k, v, path in viol_lines[:25]:
                print('VIOLATION property=%s replay=%s' % (prop, path))
            exit_code = 1
        elif verdict == 'inconclusive':
            print('INCONCLUSIVE property=%s reason=%s' % (prop, ' ;; '.join(m['inconclusive'])[:1500]))
            exit_code = 2
        else:
            print('HELD property=%s on %d evaluations (%d distinct non-trivial)' %
                  (prop, m['evaluations'], len(m['nontrivial'])))
            exit_code = 0
        return exit_code
    finally:
        shutil.rmtree(scratch, ignore_errors=True)


if __name__ == '__main__':
    sys.exit(main())
