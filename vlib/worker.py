"""One shard of one property's workload, in a fresh interpreter.

usage: python -m vlib.worker PROP TIER SEED SHARD NSHARDS OUT [--replay CASEFILE] [--budget S]
"""
import faulthandler
import importlib
import json
import os
import sys
import time
import traceback


def repo_root():
    return os.path.realpath(os.environ.get('VERIF_REPO', '/repo'))


def setup_import_root():
    root = repo_root()
    # make the target tree win over the editable install
    sys.path.insert(0, root)
    import pedal
    where = os.path.realpath(pedal.__file__)
    if not where.startswith(root + os.sep):
        return False, where
    return True, where


def main(argv):
    prop, tier, seed, shard, nshards, out = argv[:6]
    rest = argv[6:]
    replay = None
    budget = None
    while rest:
        a = rest.pop(0)
        if a == '--replay':
            replay = rest.pop(0)
        elif a == '--budget':
            budget = float(rest.pop(0))
    seed, shard, nshards = int(seed), int(shard), int(nshards)
    from vlib.ctx import Ctx
    deadline = time.time() + budget if budget else None
    ctx = Ctx(prop, tier, seed, shard, nshards, deadline=deadline)
    ctx.out_path = out
    # hard watchdog: dump stacks and die (driver reports inconclusive)
    hard = float(os.environ.get('VERIF_HARD_TIMEOUT', '0') or 0)
    # memory cap per worker: a runaway generator or student program must not take the machine down
    try:
        import resource
        cap = int(float(os.environ.get('VERIF_AS_GB', '24')) * (1 << 30))   # address space; the driver also polls RSS
        resource.setrlimit(resource.RLIMIT_AS, (cap, cap))
    except Exception:
        pass
    if hard > 0:
        faulthandler.dump_traceback_later(hard, exit=True)
    ok, where = setup_import_root()
    status = 'ok'
    if not ok:
        ctx.inconclusive('pedal imported from %s, not from %s' % (where, repo_root()))
        status = 'bad-import-root'
    else:
        try:
            mod = importlib.import_module('props.' + prop.lower())
            if replay is not None:
                with open(replay) as f:
                    payload = json.load(f)
                cases = payload['cases'] if isinstance(payload, dict) and 'cases' in payload else [payload]
                for c in cases:
                    case = c['case'] if isinstance(c, dict) and 'case' in c and 'detail' in c else c
                    mod.replay(ctx, case)
            else:
                mod.run(ctx)
        except BaseException as e:  # harness failure, not a verdict
            ctx.inconclusive('worker crashed: %s: %s' % (type(e).__name__, str(e)[:300]))
            ctx.note(traceback.format_exc()[-3000:])
            status = 'crashed'
    faulthandler.cancel_dump_traceback_later()
    result = ctx.dump()
    result['status'] = status
    tmp = out + '.tmp'
    with open(tmp, 'w') as f:
        json.dump(result, f)
    os.replace(tmp, out)
    # never let leftover non-daemon threads (C14 zombies) keep the worker alive
    sys.stdout.flush()
    sys.stderr.flush()
    # (no exit handlers run from here: a private working directory a workload made for itself is removed by hand)
    try:
        import shutil
        cwd = os.getcwd()
        if os.path.basename(cwd).startswith('verif-cwd-'):
            os.chdir('/')
            shutil.rmtree(cwd, ignore_errors=True)
    except Exception:
        pass
    os._exit(0)


if __name__ == '__main__':
    main(sys.argv[1:])
