"""Real-world corpus: stdlib and pedal sources, bounded by size."""
import os
import sysconfig


def corpus_files(max_bytes=60000, repo=None):
    roots = [sysconfig.get_paths()['stdlib']]
    if repo:
        roots.append(os.path.join(repo, 'pedal'))
        roots.append(os.path.join(repo, 'tests'))
        roots.append(os.path.join(repo, 'examples'))
    out = []
    for root in roots:
        for dp, dns, fns in os.walk(root):
            dns[:] = sorted(d for d in dns if d not in ('__pycache__', 'site-packages', 'test', 'idlelib', 'lib2to3',
                                                        'tkinter', 'turtledemo', 'ensurepip'))
            for fn in sorted(fns):
                if fn.endswith('.py'):
                    p = os.path.join(dp, fn)
                    try:
                        if 0 < os.path.getsize(p) <= max_bytes:
                            out.append(p)
                    except OSError:
                        pass
    return out


def read(path):
    with open(path, 'rb') as f:
        data = f.read()
    try:
        return data.decode('utf-8')
    except UnicodeDecodeError:
        return None
