"""Source editor: k character-level insert/delete/replace edits with a weighted alphabet."""
ALPHABET = (list('()[]{}:,.\'"#\\=+-*/%<>!&|^~@;') + [' ', ' ', '\t', '\n', '\n', '\r', '\r\n', '\x0c', '\x00',
            '﻿', '\xa0', ' ', 'é', 'λ', '名', '€', '“', '”', '→', '0', '1', 'x', 'if', 'def ', 'else',
            '    ', '\t\t', '"""', "'''", 'lambda', 'print', 'e', '_', '0x', '1e', 'f"', "f'{", '}', '\\\n'])


def edit(rng, text, k=None):
    if k is None:
        k = rng.choice([1, 1, 1, 2, 2, 3])
    ops = []
    for _ in range(k):
        op = rng.choice(['insert', 'insert', 'delete', 'replace', 'dup-line', 'del-line', 'indent', 'dedent'])
        n = len(text)
        pos = rng.randint(0, n) if n else 0
        if op == 'insert' or n == 0:
            ch = rng.choice(ALPHABET)
            text = text[:pos] + ch + text[pos:]
            ops.append(('insert', pos, ch))
        elif op == 'delete':
            ln = rng.choice([1, 1, 1, 2, 5])
            text = text[:pos] + text[pos + ln:]
            ops.append(('delete', pos, ln))
        elif op == 'replace':
            ch = rng.choice(ALPHABET)
            text = text[:pos] + ch + text[pos + 1:]
            ops.append(('replace', pos, ch))
        else:
            lines = text.split('\n')
            i = rng.randrange(len(lines))
            if op == 'dup-line':
                lines.insert(i, lines[i])
            elif op == 'del-line':
                del lines[i]
            elif op == 'indent':
                lines[i] = rng.choice(['  ', '    ', '\t', ' ']) + lines[i]
            elif op == 'dedent':
                lines[i] = lines[i][rng.choice([1, 2, 4]):]
            text = '\n'.join(lines)
            ops.append((op, i))
    return text, ops
