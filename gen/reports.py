"""Generator of feedback multisets + suppression sets (C01-C03), built through
pedal's real public API. Specs are plain JSON so they can be replayed."""

CATEGORIES = ['syntax', 'runtime', 'algorithmic', 'mistakes', 'specification', 'instructor',
              'student', 'style', 'system', 'positive', 'complete', 'instructions', 'uncategorized']
EXTRA_CATEGORIES = ['custom_cat', 'Runtime', 'SYNTAX', None]
PRIORITIES = [None, None, None, 'high', 'low', 'medium', 'highest', 'lowest',
              'syntax', 'runtime', 'student', 'positive', 'instructions', 'mistakes', 'algorithmic',
              'specification', 'uncategorized',
              'parser', 'verifier', 'analyzer', 'instructor', 'HIGH', 'Low', 'Lowest']
KINDS = [None, None, 'Mistake', 'Compliment', 'Instructional', 'Result', 'Hint', 'Encouragement', 'Misconception', 'Constraint', 'Metacognitive', 'Reinforcement', 'Performance', 'Meta', 'Encouragement']
LABELS = ['alpha', 'Beta', 'gamma_3', 'delta']
FIELDSETS = [{}, {'a': 1}, {'a': 1, 'b': 'x'}, {'a': 2}, {'b': 'x'}, {'name': 'total', 'line': 3},
             {'a': 2, 'b': 'x'}, {'a': 1, 'b': 'y'}, {'b': 'x', 'a': 1}, {'name': 'count', 'line': 3}, {'name': 'total', 'line': 4},
             {'a': 1, 'b': 'x', 'c': None}, {'a': 1, 'b': 'x', 'c': 0}]
SCORES_GRID = [None, None, 1, 0.5, 0.25, 0, '+10%', '10%', '-10%', '+0.2', '0.3', '-0.2', '-5%',
               '+33%', '7%', 0.07, -0.5, 2, '+1', '100%', '12.5%', '2.5%', '-0.5%', '+0.125', 0.125, '.5']
SCORES_PROBE = [0.00001, 1e-7, 2.5e-05, 0.004, 0.006, 100, 1.0, 3]
VALENCES = [None, -1, 0, 1]
CORE_CLASSES = ['Feedback', 'Feedback', 'Feedback', 'explain', 'gently', 'compliment',
                'give_partial', 'set_correct', 'guidance', 'system_error', 'log', 'assert_unevaluable', 'assert_fails', 'assert_passes']


def gen_feedback(rng, idx, score_probe=False):
    cls = rng.choice(CORE_CLASSES)
    kw = {}
    r = rng.random
    if cls == 'Feedback':
        kw['label'] = rng.choice(LABELS)
        c = rng.choice(CATEGORIES if r() < 0.85 else EXTRA_CATEGORIES)
        if c is not None:
            kw['category'] = c
        if r() < 0.8:
            kw['message'] = 'msg%d' % idx
        elif r() < 0.5:
            kw['message_template'] = 'tmpl%d {a}' % idx
            kw['fields'] = {'a': 1}
        if r() < 0.5:
            kw['title'] = 'Title%d' % idx
    else:
        if r() < 0.6 and cls != 'log':
            kw['label'] = rng.choice(LABELS)
        if cls in ('explain', 'gently', 'compliment', 'guidance'):
            kw['message'] = 'msg%d' % idx
        if cls == 'give_partial':
            kw['value'] = rng.choice([0.5, '+10%', '-10%', 1, '25%', 0.1])
        if cls == 'log':
            kw['items'] = ['logged%d' % idx]
        if cls.startswith('assert_'):
            # a run-time assertion outside any group: one that fails, one that passes, one whose relation cannot be evaluated
            # (which counts as failing: the object is put on the triggered list after its condition raised)
            kw['which'] = rng.randrange(4)
        if r() < 0.25 and cls != 'log':
            kw['category'] = rng.choice(CATEGORIES)
        if r() < 0.2 and cls not in ('log',):
            kw['title'] = 'Title%d' % idx
    if r() < 0.5:
        kw['priority'] = rng.choice(PRIORITIES)
    if r() < 0.3:
        kw['kind'] = rng.choice(KINDS)
    if r() < 0.35:
        kw['muted'] = rng.choice([True, False])
    if r() < 0.2:
        kw['unscored'] = rng.choice([True, False])
    if r() < 0.35 and not cls.startswith('assert_'):
        kw['activate'] = rng.choice([True, False, False])
    if r() < 0.2:
        kw['else_message'] = 'else%d' % idx
    if r() < 0.4 and 'fields' not in kw:
        kw['fields'] = dict(rng.choice(FIELDSETS))
    if r() < 0.4:
        kw['correct'] = rng.choice([True, False, None])
    if r() < 0.5:
        kw['valence'] = rng.choice(VALENCES)
    if cls != 'give_partial' and r() < 0.5:
        kw['score'] = rng.choice(SCORES_PROBE if score_probe and r() < 0.5 else SCORES_GRID)
    kw = {k: v for k, v in kw.items() if v is not None or k in ('correct',)}
    if kw.get('correct', 0) is None:
        del kw['correct']
    return {'cls': cls, 'kw': kw}


def gen_suppressions(rng, feedbacks):
    sups = []
    n = rng.choice([0, 0, 1, 1, 2, 3, 4])
    labels_present = [f['kw'].get('label') for f in feedbacks if f['kw'].get('label')] or LABELS
    cats_present = [f['kw'].get('category') for f in feedbacks if f['kw'].get('category')] or CATEGORIES
    with_fields = [f for f in feedbacks if f['kw'].get('label') and f['kw'].get('fields')]
    for _ in range(n):
        form = rng.choice(['category', 'category', 'category+label', 'label', 'label+fields',
                           'category+label+fields', 'alias', 'correct', 'near-miss', 'near-miss'])
        s = {}
        if form == 'near-miss' and not with_fields:
            form = 'label+fields'
        if form == 'near-miss':
            # aimed at one feedback that is present: its own label and a field set that matches it exactly, or in all but one
            # field (first / last / any), or is a subset / superset / reordering of its fields
            f = rng.choice(with_fields)
            fields = dict(f['kw']['fields'])
            keys = list(fields)
            how = rng.choice(['exact', 'first-differs', 'last-differs', 'any-differs', 'subset', 'superset', 'reordered', 'superset-front'])
            if how == 'first-differs':
                fields[keys[0]] = 'other'
            elif how == 'last-differs':
                fields[keys[-1]] = 'other'
            elif how == 'any-differs':
                fields[rng.choice(keys)] = -1
            elif how == 'subset' and len(keys) > 1:
                del fields[rng.choice(keys)]
            elif how == 'superset':
                fields['zz'] = 1
            elif how == 'superset-front':
                fields = dict([('zz', 1)] + list(fields.items()))
            elif how == 'reordered':
                fields = dict(reversed(list(fields.items())))
            s['label'] = f['kw']['label']
            if f['kw'].get('category') and rng.random() < 0.5:
                s['category'] = f['kw']['category']
            s['fields'] = fields
        elif form == 'category':
            s['category'] = rng.choice(cats_present + CATEGORIES)
        elif form == 'alias':
            s['category'] = rng.choice(['parser', 'verifier', 'analyzer', 'Instructor', 'RUNTIME', 'Analyzer', 'Parser', 'VERIFIER', 'Sandbox', 'sandbox', 'Tifa', 'cait', 'Source'])
        elif form == 'correct':
            s['category'] = rng.choice(['correct', 'success'])
        elif form == 'category+label':
            s['category'] = rng.choice(cats_present + ['instructor'])
            s['label'] = rng.choice(labels_present + LABELS)
        elif form == 'label':
            s['label'] = rng.choice(labels_present + LABELS + ['explain', 'gently'])
        elif form == 'label+fields':
            s['label'] = rng.choice(labels_present + LABELS)
            s['fields'] = dict(rng.choice(FIELDSETS[1:]))
        else:
            s['category'] = rng.choice(cats_present + ['instructor'])
            s['label'] = rng.choice(labels_present + LABELS)
            s['fields'] = dict(rng.choice(FIELDSETS[1:]))
        if isinstance(s.get('category'), str) and s['category'] in ('Runtime', 'SYNTAX'):
            pass
        sups.append(s)
    with_cat = [f for f in feedbacks if f['kw'].get('label') and f['kw'].get('category')]
    if with_cat and rng.random() < 0.2:
        # the same category and label suppressed twice: first only for some fields, then altogether (or the other way round)
        f = rng.choice(with_cat)
        narrow = {'category': f['kw']['category'], 'label': f['kw']['label'], 'fields': {'never_given': 1}}
        blanket = {'category': f['kw']['category'], 'label': f['kw']['label']}
        sups.extend([narrow, blanket] if rng.random() < 0.7 else [blanket, narrow])
    return sups


def gen_spec(rng, score_probe=False, max_n=8):
    n = rng.choice([0, 1, 1, 2, 2, 3, 3, 4, 5, 6, max_n])
    fbs = [gen_feedback(rng, i, score_probe) for i in range(n)]
    spec = {'feedbacks': fbs, 'suppressions': gen_suppressions(rng, fbs),
            'sup_first': rng.random() < 0.5, 'main_report': rng.random() < 0.3}
    if fbs and rng.random() < 0.12:
        # the assignment has variants ("pools"): for the one that is chosen, feedback is re-worded, re-ranked or muted
        spec['pool'] = {'names': ['A'], 'overrides': [{'priority': rng.choice(PRIORITIES[1:] or ['low'])} if rng.random() < 0.6 else
                                                      rng.choice([{'category': rng.choice([c for c in CATEGORIES if c])}, {'muted': True}, {'title': 'Variant title'}])]}
    return spec


def build(spec, order=None, first=None):
    """Create the feedback through the real API. Returns (report, objects, construction_errors)."""
    from pedal.core.report import Report, MAIN_REPORT
    from pedal.core import commands
    from pedal.core.feedback import Feedback
    if spec.get('main_report'):
        report = MAIN_REPORT
        report.clear()
    else:
        report = Report()
    if spec.get('pre_use'):
        # the report object has a past: an earlier grading left feedback and suppressions of every form in it, was resolved,
        # and the report was cleared again - none of that may show in what follows
        from pedal.resolvers import simple as _simple
        commands.gently('left over from the grading before', label='stale_label', report=report)
        commands.explain('another one', label='stale_two', priority='high', report=report)
        for s in spec['pre_use']:
            kw = {k: (dict(v) if isinstance(v, dict) else v) for k, v in s.items()}
            commands.suppress(report=report, **kw)
        try:
            _simple.resolve(report)
        except Exception:
            pass
        report.clear()
    classes = {'Feedback': Feedback, 'explain': commands.explain, 'gently': commands.gently,
               'compliment': commands.compliment, 'give_partial': commands.give_partial,
               'set_correct': commands.set_correct, 'guidance': commands.guidance,
               'system_error': commands.system_error, 'log': commands.log,
               'assert_unevaluable': _assertion('unevaluable'), 'assert_fails': _assertion('fails'), 'assert_passes': _assertion('passes')}

    def do_sup():
        for s in spec['suppressions']:
            kw = {}
            if 'category' in s:
                kw['category'] = s['category']
            if 'label' in s:
                kw['label'] = s['label']
            if 'fields' in s:
                kw['fields'] = dict(s['fields'])
            commands.suppress(report=report, **kw)
    if spec.get('sup_first'):
        do_sup()
    Feedback._pools.clear()
    if spec.get('pool'):
        report.set_pools(list(spec['pool']['names']))
        for fields in spec['pool']['overrides']:
            Feedback.override_for_pool(spec['pool']['names'][0], **fields)
    objs = []
    idxs = list(range(len(spec['feedbacks']))) if order is None else order

    def add(idx_list):
        for i in idx_list:
            _add_one(spec, i, report, classes, objs)
    if first is not None:
        add(idxs[:first])
        if not spec.get('sup_first'):
            do_sup()
        return report, objs, (lambda: add(idxs[first:]))
    add(idxs)
    if not spec.get('sup_first'):
        do_sup()
    return report, objs


def _assertion(outcome):
    def make(which=0, **kw):
        from pedal.assertions import runtime
        table = {'unevaluable': [(runtime.assert_less, (None, 10)), (runtime.assert_greater_equal, ('text', 3)), (runtime.assert_in, (1, None)),
                                 (runtime.assert_length_equal, (5, 1))],
                 'fails': [(runtime.assert_equal, (3, 4)), (runtime.assert_less, (10, 3)), (runtime.assert_in, (9, [1, 2])), (runtime.assert_true, (0,))],
                 'passes': [(runtime.assert_equal, (4, 4)), (runtime.assert_less, (1, 3)), (runtime.assert_in, (1, [1, 2])), (runtime.assert_true, (1,))]}
        func, args = table[outcome][which % 4]
        return func(*args, **kw)
    return make


def _add_one(spec, i, report, classes, objs):
    if True:
        f = spec['feedbacks'][i]
        kw = dict(f['kw'])
        if 'fields' in kw:
            kw['fields'] = dict(kw['fields'])
        cls = classes[f['cls']]
        before = {id(x) for x in report.feedback + report.ignored_feedback}
        if f['cls'] == 'give_partial':
            obj = cls(kw.pop('value'), report=report, **kw)
        elif f['cls'] == 'log':
            cls(*kw.pop('items'), report=report, **kw)
            obj = [x for x in report.feedback + report.ignored_feedback if id(x) not in before][-1]
        else:
            obj = cls(report=report, **kw)
        objs.append(obj)
