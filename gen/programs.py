"""Seeded generator of deterministic, terminating CS1-style programs.

gen_program(rng, **opts) -> Program(src, inputs, functions, features)

The programs never raise on their own (divisions are guarded, indexes are
reduced modulo the length, loops are bounded) unless an option plants a failure.
`static_only=True` additionally emits constructs that need not run (used by the
purely static properties).
"""
import random

INT_VARS = ['a', 'b', 'c', 'total', 'count', 'n', 'k']
FLOAT_VARS = ['x', 'y', 'ratio']
STR_VARS = ['name', 'word', 's', 'text']
LIST_VARS = ['items', 'nums', 'values']
DICT_VARS = ['table', 'ages']
BOOL_VARS = ['flag', 'done', 'ok']
FUNC_NAMES = ['add_up', 'helper', 'compute', 'describe', 'scale', 'pick']
CLASS_NAMES = ['Point', 'Counter', 'Dog']
WORDS = ['apple', 'Bob', 'x y', '', 'hello world', 'Zed', 'a,b', '42']


class Program:
    def __init__(self, src, inputs, functions, features):
        self.src = src
        self.inputs = inputs          # list[str] consumed by input()
        self.functions = functions    # list of (name, [arg tuples as python source lists])
        self.features = features      # set of feature names used

    def to_json(self):
        return {'src': self.src, 'inputs': self.inputs, 'functions': self.functions,
                'features': sorted(self.features)}


class _Gen:
    def __init__(self, rng, max_stmts=12, allow_input=True, allow_funcs=True, allow_classes=True,
                 static_only=False, allow_imports=True, allow_try=True):
        self.rng = rng
        self.vars = {}           # name -> type
        self.lines = []
        self.inputs = []
        self.functions = []
        self.features = set()
        self.max_stmts = max_stmts
        self.allow_input = allow_input
        self.allow_funcs = allow_funcs
        self.allow_classes = allow_classes
        self.allow_imports = allow_imports
        self.allow_try = allow_try
        self.static_only = static_only
        self.loop_depth = 0
        self.in_func = False
        self.imported = set()
        self.defined_funcs = {}  # name -> (param types, ret type)
        self.defined_classes = {}
        self.counter = 0

    # ------------------------------------------------------------------ helpers
    def r(self):
        return self.rng.random()

    def choice(self, seq):
        return self.rng.choice(seq)

    def emit(self, indent, text):
        self.lines.append('    ' * indent + text)

    def fresh(self, pool):
        return self.choice(pool)

    def vars_of(self, t):
        return [v for v, vt in self.vars.items() if vt == t]

    # -------------------------------------------------------------- expressions
    def int_expr(self, d=0):
        r = self.r()
        vs = self.vars_of('int')
        if d >= 3 or r < 0.25:
            return str(self.rng.randint(-3, 12))
        if r < 0.5 and vs:
            return self.choice(vs)
        if r < 0.62:
            op = self.choice(['+', '-', '+', '-', '*'])
            if op == '*':
                return '(%s * %d)' % (self.int_expr(d + 1), self.rng.randint(0, 4))
            return '(%s %s %s)' % (self.int_expr(d + 1), op, self.int_expr(d + 1))
        if r < 0.68:
            return '(%s %s (abs(%s) + 1))' % (self.int_expr(d + 1), self.choice(['//', '%']), self.int_expr(d + 1))
        if r < 0.72:
            self.features.add('bitwise')
            return '(%s %s %s)' % (self.int_expr(d + 1), self.choice(['&', '|', '^']), self.int_expr(d + 1))
        if r < 0.75:
            self.features.add('shift')
            return '((%s %% 100) %s %d)' % (self.int_expr(d + 1), self.choice(['<<', '>>']), self.rng.randint(0, 3))
        if r < 0.78:
            return '(%s(%s))' % (self.choice(['-', '+', '~']), self.int_expr(d + 1))
        if r < 0.82:
            ls = self.vars_of('list')
            if ls:
                l = self.choice(ls)
                self.features.add('index')
                return self.choice(['len(%s)' % l, 'sum(%s)' % l, '%s[%s %% len(%s)]' % (l, self.int_expr(d + 1), l),
                                    'max(%s)' % l, 'min(%s)' % l, '%s[-1]' % l, '%s[0]' % l])
        if r < 0.85:
            ss = self.vars_of('str')
            if ss:
                return 'len(%s)' % self.choice(ss)
        if r < 0.88:
            return 'abs(%s)' % self.int_expr(d + 1)
        if r < 0.9:
            return '(%s ** 2)' % self.int_expr(d + 1) if d >= 1 else 'min(%s, %s)' % (self.int_expr(d + 1), self.int_expr(d + 1))
        if r < 0.93:
            return 'int(%s)' % self.float_expr(d + 1)
        if r < 0.96:
            ds = self.vars_of('dict')
            if ds:
                self.features.add('dict-get')
                return '%s.get(%r, %d)' % (self.choice(ds), self.choice(['k1', 'k2', 'zz']), self.rng.randint(0, 5))
        if r < 0.98 and self.defined_funcs and not self.in_func:
            fs = [f for f, (pt, rt) in self.defined_funcs.items() if rt == 'int']
            if fs:
                f = self.choice(fs)
                self.features.add('call-in-expr')
                if f == 'fact':
                    return 'fact(abs(%s) %% 6)' % self.int_expr(d + 1)
                return '%s(%s)' % (f, ', '.join(self.expr_of(t, d + 1) for t in self.defined_funcs[f][0]))
        if 'math' in self.imported:
            return 'math.floor(%s)' % self.float_expr(d + 1)
        return str(self.rng.randint(0, 9))

    def float_expr(self, d=0):
        r = self.r()
        vs = self.vars_of('float')
        if d >= 3 or r < 0.3:
            return self.choice(['0.5', '1.25', '2.0', '-0.75', '3.5', '10.0', '0.1'])
        if r < 0.5 and vs:
            return self.choice(vs)
        if r < 0.7:
            return '(%s %s %s)' % (self.float_expr(d + 1), self.choice(['+', '-', '*']), self.choice(['0.5', '2.0', '1.5', self.int_expr(d + 1)]))
        if r < 0.8:
            return '(%s / (abs(%s) + 1))' % (self.int_expr(d + 1), self.int_expr(d + 1))
        if r < 0.85:
            return 'float(%s)' % self.int_expr(d + 1)
        if r < 0.9:
            return 'round(%s, 2)' % self.float_expr(d + 1)
        if 'math' in self.imported:
            self.features.add('math')
            return self.choice(['math.sqrt(abs(%s))' % self.int_expr(d + 1), 'math.pi', 'math.fabs(%s)' % self.float_expr(d + 1)])
        return 'abs(%s)' % self.float_expr(d + 1)

    def str_expr(self, d=0):
        r = self.r()
        vs = self.vars_of('str')
        if d >= 3 or r < 0.3:
            return repr(self.choice(WORDS))
        if r < 0.5 and vs:
            return self.choice(vs)
        if r < 0.6:
            return '(%s + %s)' % (self.str_expr(d + 1), self.str_expr(d + 1))
        if r < 0.66:
            return 'str(%s)' % self.choice([self.int_expr(d + 1), self.float_expr(d + 1), self.bool_expr(d + 1)])
        if r < 0.74:
            return '%s.%s()' % (self.str_expr(d + 1), self.choice(['upper', 'lower', 'strip', 'title', 'capitalize']))
        if r < 0.78:
            return '(%s * %d)' % (self.str_expr(d + 1), self.rng.randint(0, 3))
        if r < 0.84:
            self.features.add('fstring')
            return 'f"{%s}-{%s!r}:{%s:>4}"' % (self.int_expr(d + 1), self.str_expr(3), self.int_expr(3))
        if r < 0.88:
            self.features.add('format')
            return "'{} and {}'.format(%s, %s)" % (self.int_expr(d + 1), self.str_expr(d + 1))
        if r < 0.92:
            self.features.add('slice')
            return '%s[%d:%d]' % (self.str_expr(d + 1), self.rng.randint(0, 2), self.rng.randint(2, 6))
        if r < 0.95:
            return "%s.replace('a', 'A')" % self.str_expr(d + 1)
        if r < 0.98:
            ls = self.vars_of('list')
            if ls:
                return "', '.join(str(e) for e in %s)" % self.choice(ls)
        return "('%%d items' %% %s)" % self.int_expr(d + 1)

    def bool_expr(self, d=0):
        r = self.r()
        vs = self.vars_of('bool')
        if d >= 3 or r < 0.12:
            return self.choice(['True', 'False'])
        if r < 0.25 and vs:
            return self.choice(vs)
        if r < 0.6:
            op = self.choice(['<', '<=', '>', '>=', '==', '!='])
            return '(%s %s %s)' % (self.int_expr(d + 1), op, self.int_expr(d + 1))
        if r < 0.68:
            self.features.add('chained-compare')
            return '(%s %s %s %s %s)' % (self.int_expr(d + 1), self.choice(['<', '<=']), self.int_expr(d + 1),
                                         self.choice(['<', '<=', '==']), self.int_expr(d + 1))
        if r < 0.78:
            return '(%s %s %s)' % (self.bool_expr(d + 1), self.choice(['and', 'or']), self.bool_expr(d + 1))
        if r < 0.84:
            return '(not %s)' % self.bool_expr(d + 1)
        if r < 0.9:
            ls = self.vars_of('list')
            if ls:
                self.features.add('in')
                return '(%s %s %s)' % (self.int_expr(d + 1), self.choice(['in', 'not in']), self.choice(ls))
        if r < 0.94:
            return '(%s == %s)' % (self.str_expr(d + 1), self.str_expr(d + 1))
        if r < 0.97:
            ss = self.vars_of('str')
            if ss:
                return "%s.startswith('a')" % self.choice(ss)
        return '(%s %s None)' % (self.choice(self.vars_of('list') + self.vars_of('str') + ['None']), self.choice(['is', 'is not']))

    def list_expr(self, d=0):
        r = self.r()
        vs = self.vars_of('list')
        if r < 0.45 or d >= 2:
            n = self.rng.randint(1, 4)
            return '[' + ', '.join(self.int_expr(2) for _ in range(n)) + ']'
        if r < 0.6 and vs:
            self.features.add('listcomp')
            return '[e * 2 for e in %s if e %% 2 == 0] + [0]' % self.choice(vs)
        if r < 0.7:
            self.features.add('listcomp')
            return '[i * i for i in range(%d)] + [1]' % self.rng.randint(0, 4)
        if r < 0.8 and vs:
            return 'sorted(%s)' % self.choice(vs)
        if r < 0.88 and vs:
            return '(%s + %s)' % (self.choice(vs), self.list_expr(d + 1))
        if r < 0.94:
            return 'list(range(1, %d))' % self.rng.randint(2, 5)
        if vs:
            return '%s[:%d] + [7]' % (self.choice(vs), self.rng.randint(0, 3))
        return '[1, 2, 3]'

    def dict_expr(self):
        return "{'k1': %s, 'k2': %s}" % (self.int_expr(2), self.int_expr(2))

    def expr_of(self, t, d=0):
        return {'int': self.int_expr, 'float': self.float_expr, 'str': self.str_expr, 'bool': self.bool_expr,
                'list': self.list_expr}.get(t, lambda d=0: self.dict_expr())(d) if t != 'dict' else self.dict_expr()

    def any_expr(self, d=0):
        t = self.choice(['int', 'int', 'float', 'str', 'bool', 'list'])
        return self.expr_of(t, d)

    # --------------------------------------------------------------- statements
    def stmt_assign(self, ind):
        t = self.choice(['int', 'int', 'int', 'float', 'str', 'str', 'bool', 'list', 'dict'])
        pool = {'int': INT_VARS, 'float': FLOAT_VARS, 'str': STR_VARS, 'bool': BOOL_VARS, 'list': LIST_VARS,
                'dict': DICT_VARS}[t]
        v = self.fresh(pool)
        if self.loop_depth and t == 'int' and v in ('i', 'j'):
            return
        e = self.expr_of(t)
        self.emit(ind, '%s = %s' % (v, e))
        self.vars[v] = t

    def stmt_aug(self, ind):
        vs = self.vars_of('int')
        if not vs:
            return self.stmt_assign(ind)
        self.features.add('augassign')
        self.emit(ind, '%s %s %s' % (self.choice(vs), self.choice(['+=', '-=', '+=']), self.int_expr(1)))

    def stmt_print(self, ind):
        n = self.rng.randint(0, 3)
        args = [self.any_expr(1) for _ in range(n)]
        r = self.r()
        if r < 0.15:
            args.append("sep='-'")
            self.features.add('print-sep')
        elif r < 0.3:
            args.append("end=%r" % self.choice(['', ' ', '!\n', '\n\n']))
            self.features.add('print-end')
        elif r < 0.35:
            args += ["sep=''", "end=''"]
        self.emit(ind, 'print(%s)' % ', '.join(args))
        self.features.add('print')

    def stmt_write(self, ind):
        if 'sys' not in self.imported:
            return self.stmt_print(ind)
        self.features.add('stdout-write')
        self.emit(ind, 'sys.stdout.write(%s)' % self.str_expr(1))

    def stmt_if(self, ind, depth):
        self.features.add('if')
        self.emit(ind, 'if %s:' % self.bool_expr())
        saved = dict(self.vars)
        self.block(ind + 1, depth + 1)
        self.vars = dict(saved)
        while self.r() < 0.3:
            self.features.add('elif')
            self.emit(ind, 'elif %s:' % self.bool_expr())
            self.block(ind + 1, depth + 1)
            self.vars = dict(saved)
        if self.r() < 0.5:
            self.emit(ind, 'else:')
            self.block(ind + 1, depth + 1)
            self.vars = dict(saved)

    def stmt_for(self, ind, depth):
        if self.loop_depth >= 2:
            return self.stmt_print(ind)
        self.features.add('for')
        var = 'i' if self.loop_depth == 0 else 'j'
        ls = self.vars_of('list')
        r = self.r()
        saved = dict(self.vars)
        if ls and r < 0.4:
            self.emit(ind, 'for %s in %s[:4]:' % (var, self.choice(ls)))
        elif r < 0.5 and self.vars_of('str'):
            var = 'ch'
            self.emit(ind, 'for %s in %s[:5]:' % (var, self.choice(self.vars_of('str'))))
            self.vars[var] = 'str'
        elif r < 0.6 and ls:
            self.features.add('enumerate')
            self.emit(ind, 'for %s, e in enumerate(%s[:3]):' % (var, self.choice(ls)))
            self.vars['e'] = 'int'
        else:
            self.emit(ind, 'for %s in range(%d):' % (var, self.rng.randint(0, 4)))
        if var != 'ch':
            self.vars[var] = 'int'
        self.loop_depth += 1
        self.block(ind + 1, depth + 1, loop=True)
        self.loop_depth -= 1
        # variables first assigned inside the body may not exist afterwards
        self.vars = saved

    def stmt_while(self, ind, depth):
        if self.loop_depth >= 2:
            return self.stmt_print(ind)
        self.features.add('while')
        self.counter += 1
        c = 'w%d' % self.counter
        self.emit(ind, '%s = 0' % c)
        self.emit(ind, 'while %s < %d:' % (c, self.rng.randint(0, 4)))
        saved = dict(self.vars)
        self.loop_depth += 1
        self.emit(ind + 1, '%s += 1' % c)
        self.block(ind + 1, depth + 1, loop=True)
        self.loop_depth -= 1
        self.vars = saved
        self.vars[c] = 'int'

    def stmt_try(self, ind, depth):
        self.features.add('try')
        self.emit(ind, 'try:')
        saved = dict(self.vars)
        kind = self.choice(['zero', 'index', 'key', 'value', 'none'])
        if kind == 'zero':
            self.emit(ind + 1, 'print(%s // (%s - %s))' % (self.int_expr(2), '3', '3'))
            exc = 'ZeroDivisionError'
        elif kind == 'index':
            self.emit(ind + 1, 'print([1, 2][%d])' % self.rng.randint(2, 5))
            exc = 'IndexError'
        elif kind == 'key':
            self.emit(ind + 1, "print({'a': 1}['b'])")
            exc = 'KeyError'
        elif kind == 'value':
            self.emit(ind + 1, "print(int('zz'))")
            exc = 'ValueError'
        else:
            self.block(ind + 1, depth + 1)
            exc = 'Exception'
        self.vars = dict(saved)
        r = self.r()
        if r < 0.3:
            self.emit(ind, 'except %s as err:' % exc)
            self.emit(ind + 1, "print('caught', type(err).__name__, str(err))")
        elif r < 0.6:
            self.emit(ind, 'except (%s, TypeError):' % exc)
            self.emit(ind + 1, "print('caught')")
        else:
            self.emit(ind, 'except %s:' % exc)
            self.emit(ind + 1, 'pass')
        if self.r() < 0.3:
            self.emit(ind, 'else:')
            self.emit(ind + 1, "print('no error')")
        if self.r() < 0.3:
            self.features.add('finally')
            self.emit(ind, 'finally:')
            self.emit(ind + 1, "print('finally')")
        self.vars = saved

    def stmt_input(self, ind):
        if not self.allow_input or self.loop_depth or self.in_func or ind != 0:
            return self.stmt_print(ind)
        self.features.add('input')
        r = self.r()
        prompt = self.choice(['', "'Enter: '", "'Number? '", "'>'"])
        if r < 0.5:
            v = self.fresh(INT_VARS)
            self.emit(ind, '%s = int(input(%s))' % (v, prompt))
            self.vars[v] = 'int'
            self.inputs.append(str(self.rng.randint(-5, 20)))
        else:
            v = self.fresh(STR_VARS)
            self.emit(ind, '%s = input(%s)' % (v, prompt))
            self.vars[v] = 'str'
            self.inputs.append(self.choice(WORDS))

    def stmt_list_mut(self, ind):
        ls = self.vars_of('list')
        if not ls:
            return self.stmt_assign(ind)
        l = self.choice(ls)
        self.features.add('list-mutation')
        r = self.r()
        if r < 0.5:
            self.emit(ind, '%s.append(%s)' % (l, self.int_expr(1)))
        elif r < 0.7:
            self.emit(ind, '%s[0] = %s' % (l, self.int_expr(1)))
        elif r < 0.85:
            self.emit(ind, '%s.insert(0, %s)' % (l, self.int_expr(1)))
        else:
            self.emit(ind, '%s.sort()' % l)

    def stmt_dict_mut(self, ind):
        ds = self.vars_of('dict')
        if not ds:
            return self.stmt_assign(ind)
        self.features.add('dict-mutation')
        d = self.choice(ds)
        self.emit(ind, "%s[%r] = %s" % (d, self.choice(['k1', 'k3', 'new']), self.int_expr(1)))
        if self.r() < 0.4:
            self.emit(ind, 'for key in sorted(%s):' % d)
            self.emit(ind + 1, 'print(key, %s[key])' % d)

    def stmt_tuple(self, ind):
        self.features.add('tuple')
        a, b = self.fresh(INT_VARS), self.fresh(INT_VARS)
        if a == b:
            return self.stmt_assign(ind)
        self.emit(ind, '%s, %s = %s, %s' % (a, b, self.int_expr(1), self.int_expr(1)))
        self.vars[a] = self.vars[b] = 'int'
        if self.r() < 0.5:
            self.emit(ind, 'pair = (%s, %s)' % (a, self.str_expr(2)))
            self.emit(ind, 'print(pair[0], pair[1], len(pair))')

    def stmt_call(self, ind):
        if not self.defined_funcs or self.in_func:
            return self.stmt_print(ind)
        f = self.choice(sorted(self.defined_funcs))
        pt, rt = self.defined_funcs[f]
        args = ', '.join(self.expr_of(t, 1) for t in pt)
        if f == 'fact':
            args = 'abs(%s) %% 6' % self.int_expr(1)
        self.features.add('call')
        if rt and self.r() < 0.7:
            pool = {'int': INT_VARS, 'str': STR_VARS, 'float': FLOAT_VARS, 'bool': BOOL_VARS, 'list': LIST_VARS}[rt]
            v = self.fresh(pool)
            self.emit(ind, '%s = %s(%s)' % (v, f, args))
            self.vars[v] = rt
        else:
            self.emit(ind, 'print(%s(%s))' % (f, args))

    def stmt_obj(self, ind):
        if not self.defined_classes or self.in_func:
            return self.stmt_print(ind)
        c = self.choice(sorted(self.defined_classes))
        self.features.add('object')
        self.counter += 1
        o = 'obj%d' % self.counter
        self.emit(ind, '%s = %s(%s, %s)' % (o, c, self.int_expr(1), self.int_expr(1)))
        self.emit(ind, 'print(%s.size(), %s.p, %s.q)' % (o, o, o))
        if self.r() < 0.5:
            self.emit(ind, '%s.bump(%s)' % (o, self.int_expr(1)))
            self.emit(ind, 'print(%s.size())' % o)

    def block(self, ind, depth, loop=False):
        n = self.rng.randint(1, 3 if depth else 4)
        start = len(self.lines)
        for _ in range(n):
            self.statement(ind, depth)
        if loop and self.r() < 0.15:
            self.features.add('break-continue')
            self.emit(ind, 'if %s:' % self.bool_expr(1))
            self.emit(ind + 1, self.choice(['break', 'continue']))
        if len(self.lines) == start:
            self.emit(ind, 'pass')

    def statement(self, ind, depth):
        r = self.r()
        if depth >= 3:
            r = r * 0.5
        if r < 0.24:
            self.stmt_assign(ind)
        elif r < 0.30:
            self.stmt_aug(ind)
        elif r < 0.46:
            self.stmt_print(ind)
        elif r < 0.5:
            self.stmt_write(ind)
        elif r < 0.54:
            self.stmt_list_mut(ind)
        elif r < 0.57:
            self.stmt_dict_mut(ind)
        elif r < 0.6:
            self.stmt_tuple(ind)
        elif r < 0.64:
            self.stmt_call(ind)
        elif r < 0.67:
            self.stmt_obj(ind)
        elif r < 0.71:
            self.stmt_input(ind)
        elif r < 0.81:
            self.stmt_if(ind, depth)
        elif r < 0.88:
            self.stmt_for(ind, depth)
        elif r < 0.93:
            self.stmt_while(ind, depth)
        elif r < 0.97 and self.allow_try:
            self.stmt_try(ind, depth)
        else:
            self.stmt_print(ind)

    # ------------------------------------------------------------ definitions
    def define_function(self):
        name = self.choice([f for f in FUNC_NAMES if f not in self.defined_funcs] or [None])
        if name is None:
            return
        self.features.add('def')
        nparams = self.rng.randint(0, 3)
        ptypes = [self.choice(['int', 'int', 'str', 'list', 'float']) for _ in range(nparams)]
        pnames = ['p%d' % i for i in range(nparams)]
        rt = self.choice(['int', 'int', 'str', 'list', 'bool', None])
        default = ''
        sig = list(pnames)
        if nparams and self.r() < 0.3:
            self.features.add('default-arg')
            lit = {'int': '2', 'str': "'dflt'", 'list': 'None', 'float': '1.5'}[ptypes[-1]]
            sig[-1] = '%s=%s' % (pnames[-1], lit)
        self.emit(0, 'def %s(%s):' % (name, ', '.join(sig)))
        saved_vars, saved_loop = self.vars, self.loop_depth
        self.vars = dict(zip(pnames, ptypes))
        if sig and sig[-1].endswith('=None'):
            self.emit(1, 'if %s is None:' % pnames[-1])
            self.emit(2, '%s = [1]' % pnames[-1])
        self.in_func = True
        self.loop_depth = 0
        n = self.rng.randint(1, 4)
        for _ in range(n):
            self.statement(1, 1)
        if rt:
            if self.r() < 0.3:
                self.features.add('early-return')
                self.emit(1, 'if %s:' % self.bool_expr(1))
                self.emit(2, 'return %s' % self.expr_of(rt, 1))
            self.emit(1, 'return %s' % self.expr_of(rt, 1))
        self.in_func = False
        self.vars, self.loop_depth = saved_vars, saved_loop
        self.defined_funcs[name] = (ptypes, rt)
        # sample argument tuples (python source of a list literal each)
        samples = []
        for _ in range(3):
            g = _Gen(self.rng)
            samples.append('[' + ', '.join(g.expr_of(t, 2) for t in ptypes) + ']')
        self.functions.append((name, samples))
        self.emit(0, '')

    def define_recursive(self):
        if 'fact' in self.defined_funcs:
            return
        self.features.add('recursion')
        self.emit(0, 'def fact(m):')
        self.emit(1, 'if m <= 1:')
        self.emit(2, 'return 1')
        self.emit(1, 'return m * fact(m - 1)')
        self.emit(0, '')
        self.defined_funcs['fact'] = (['int'], 'int')
        self.functions.append(('fact', ['[0]', '[5]', '[-2]']))

    def define_class(self):
        name = self.choice([c for c in CLASS_NAMES if c not in self.defined_classes] or [None])
        if name is None:
            return
        self.features.add('class')
        self.emit(0, 'class %s:' % name)
        if self.r() < 0.4:
            self.emit(1, 'kind = %r' % name.lower())
        self.emit(1, 'def __init__(self, p, q):')
        self.emit(2, 'self.p = p')
        self.emit(2, 'self.q = q')
        self.emit(1, 'def size(self):')
        self.emit(2, 'return self.p * 2 + self.q')
        self.emit(1, 'def bump(self, amount):')
        self.emit(2, 'self.p += amount')
        if self.r() < 0.5:
            self.features.add('dunder-str')
            self.emit(1, 'def __str__(self):')
            self.emit(2, "return '%s(' + str(self.p) + ')'" % name)
        self.emit(0, '')
        self.defined_classes[name] = True

    def generate(self):
        if self.allow_imports:
            for m in ('math', 'sys'):
                if self.r() < 0.4:
                    self.emit(0, 'import %s' % m)
                    self.imported.add(m)
                    self.features.add('import-' + m)
            if self.r() < 0.1:
                self.emit(0, 'from math import sqrt, floor')
                self.features.add('from-import')
        if self.allow_funcs:
            for _ in range(self.choice([0, 0, 1, 1, 2, 3])):
                self.define_function()
            if self.r() < 0.15:
                self.define_recursive()
        if self.allow_classes and self.r() < 0.25:
            self.define_class()
        n = self.rng.randint(2, self.max_stmts)
        for _ in range(n):
            self.statement(0, 0)
        if self.r() < 0.2:
            self.features.add('main-guard')
            self.emit(0, "if __name__ == '__main__':")
            self.emit(1, "print('main', %s)" % self.int_expr(1))
        if self.static_only:
            self.static_extras()
        return Program('\n'.join(self.lines) + ('\n' if self.r() < 0.9 else ''), self.inputs, self.functions,
                       self.features)

    def static_extras(self):
        """constructs that only static tools look at (never executed)"""
        extras = [
            'zz = a @ b', 'zz = [1, 2] is not None', 'zz <<= 2', 'zz = not a', 'zz = a if b else c',
            'zz = lambda q: q + 1', 'zz = {1, 2, 3}', 'zz = (yield_ for yield_ in range(3))',
            'import os, json', 'from collections import defaultdict as dd', 'import os.path',
            'zz = a < b <= c != d', 'zz = -1 + +2 - ~3', 'zz = a and b or not c', 'zz = a ** b // c % d',
            'zz = a >> 1 | b << 2 & c ^ d', 'assert a in b, "msg"', 'zz = x is y', 'del zz',
            'zz = print(len(str(int("3"))))', 'zz = "abc".upper().lower()', 'zz = [True, False, None, 1.0, 1, "1"]',
            'while False:\n    break', 'with open("f") as fh:\n    pass', 'global_value = 3.5e3',
            'zz = 1 + 1 + 1', 'zz = 2 == 2 == 2', 'zz = -5', 'zz = 0 - 5',
        ]
        k = self.rng.randint(1, 6)
        for e in self.rng.sample(extras, k):
            for line in e.split('\n'):
                self.emit(0, line)
        self.features.add('static-extras')


def gen_program(rng, **opts):
    return _Gen(rng, **opts).generate()


if __name__ == '__main__':
    import sys
    rng = random.Random(int(sys.argv[1]) if len(sys.argv) > 1 else 0)
    p = gen_program(rng)
    print(p.src)
    print('# inputs', p.inputs, 'functions', p.functions)
