"""C18 - TIFA analyses every parsable program, deterministically and idempotently."""
import ast
import builtins
import os
import traceback

ID = 'C18'
LEVEL = 'exploration'
TECHNIQUE = 'invariant monitor around the real tifa_analysis (never raises, repeat call gives identical issues and adds no feedback, fresh report gives the same issues, lines inside the source) over corpus files, one snippet per AST node class and generated programs; completeness sweep over every builtin function and every public method of the core types'
LEVEL_TEXT = ('Held on the programs observed: tifa_analysis is run on real-world files (interpreter Lib/ and pedal itself: async, match, '
              'walrus, decorators, star-args, global/nonlocal ...), on one snippet per ast node class and on generated CS1 programs; the '
              'monitor checks that the call returns, that a second call on the same report returns the same issues (label, name, line) '
              'and leaves len(report.feedback) unchanged, that a fresh report yields the same multiset, and that every issue line lies '
              'within the analysed source. For the introductory subset the analysis must be a completed one (success True): one '
              'program per builtin function and per public method of int/float/str/list/dict/tuple/set with plausible arguments, '
              'imports of standard modules, dictionaries with values of several kinds, plus the generated programs; the same code on a fresh '
              'report after a program that assigned to a module attribute.')
LEVEL_NOTE = ('Files on which CPython\'s own parser fails are not "syntactically valid" and are skipped. The completes part is '
              'judged only on the introductory subset (generated CS1 programs and the builtin/method sweep), not on corpus files.')
RULE = ('Distinct = distinct source text; non-trivial = a program with at least one statement beyond a bare expression, or a '
        'builtin/method sweep cell (each names a different callable).')
ASSUMPTIONS = ['the builtin function list and the method lists are taken from the running interpreter']
SHARDS = {'quick': 16, 'thorough': 48}
BUDGET = {'quick': 45, 'thorough': 1200}
MIN_NONTRIVIAL = {'quick': 800, 'thorough': 20000}
REQUIRED_COUNTERS = {'quick': ['analyses_checked', 'sweep_cells', 'corpus_files'], 'thorough': ['analyses_checked', 'sweep_cells', 'corpus_files']}

NODE_SNIPPETS = {
    'AsyncFunctionDef': "async def f():\n    await g()\n", 'AsyncFor': "async def f():\n    async for x in y():\n        pass\n",
    'AsyncWith': "async def f():\n    async with a() as b:\n        pass\n", 'Await': "async def f():\n    return await g()\n",
    'Match': "def f(x):\n    match x:\n        case 1:\n            return 'one'\n        case [a, b]:\n            return a\n        case {'k': v}:\n            return v\n        case Point(x=0):\n            return 0\n        case _:\n            return None\n",
    'NamedExpr': "if (n := len([1, 2])) > 1:\n    print(n)\n", 'Lambda': "f = lambda a, b=2, *c, d, **e: a + b\nprint(f(1, d=2))\n",
    'Starred': "a, *b = [1, 2, 3]\nprint(*b)\n", 'Global': "x = 1\ndef f():\n    global x\n    x = 2\nf()\nprint(x)\n",
    'Nonlocal': "def f():\n    y = 1\n    def g():\n        nonlocal y\n        y = 2\n    g()\n    return y\nprint(f())\n",
    'Try': "try:\n    x = 1\nexcept (ValueError, TypeError) as e:\n    print(e)\nexcept Exception:\n    pass\nelse:\n    print(x)\nfinally:\n    print('done')\n",
    'TryStar': "try:\n    pass\nexcept* ValueError as eg:\n    print(eg)\n", 'With': "with open('f') as a, open('g') as b:\n    print(a, b)\n",
    'Raise': "raise ValueError('x') from None\n", 'Assert': "assert 1 == 1, 'msg'\n", 'Delete': "x = [1, 2]\ndel x[0]\ndel x\n",
    'ClassDef': "class A(object, metaclass=type):\n    '''doc'''\n    z: int = 1\n    def m(self):\n        return self.z\n    @staticmethod\n    def s():\n        return 1\n    @property\n    def p(self):\n        return 2\nprint(A().m(), A.s(), A().p)\n",
    'Decorators': "import functools\n@functools.lru_cache(maxsize=None)\ndef f(n):\n    return n\nprint(f(1))\n",
    'Yield': "def g():\n    x = yield 1\n    yield from [2, 3]\nprint(list(g()))\n", 'GeneratorExp': "print(sum(i * i for i in range(3) if i))\n",
    'ListComp': "print([i + j for i in range(2) for j in range(2) if i != j])\n", 'SetComp': "print({c for c in 'abc'})\n",
    'DictComp': "print({k: v for k, v in zip('ab', [1, 2])})\n", 'IfExp': "x = 1 if True else 2\nprint(x)\n",
    'JoinedStr': "name = 'a'\nprint(f'{name!r:>10} {1 + 1} {{literal}} {name=}')\n", 'Bytes': "b = b'abc'\nprint(b[0], b.decode())\n",
    'Ellipsis': "x = ...\nprint(x)\n", 'Slice': "s = 'abcdef'\nprint(s[1:4:2], s[::-1], s[:2])\n", 'ExtSlice': "m = [[1]]\nprint(m[0][0])\n",
    'AugAssign': "x = 1\nx += 1\nx **= 2\nx //= 3\nx <<= 1\nprint(x)\n", 'AnnAssign': "x: int = 1\ny: str\nprint(x)\n",
    'While': "i = 0\nwhile i < 3:\n    i += 1\n    if i == 2:\n        continue\nelse:\n    print(i)\n", 'For': "for i, (a, b) in enumerate([(1, 2)]):\n    print(i, a, b)\nelse:\n    pass\n",
    'Import': "import os.path as p, sys\nfrom math import *\nfrom . import x\nprint(p, sys)\n", 'BoolOp': "print(1 and 2 or not 3)\n",
    'Compare': "print(1 < 2 <= 3 != 4 is not None in [1])\n", 'UnaryOp': "print(-1, +1, ~1, not 1)\n", 'BinOp': "print(1 + 2 - 3 * 4 / 5 // 6 % 7 ** 8 << 1 >> 1 | 1 ^ 1 & 1)\nm = [[1]]\n",
    'MatMult': "class M:\n    def __matmul__(self, o):\n        return 1\nprint(M() @ M())\n", 'Dict': "d = {'a': 1, **{'b': 2}}\nprint(d)\n", 'Set': "s = {1, 2, *[3]}\nprint(s)\n",
    'Tuple': "t = ()\nu = (1,)\nv = 1, 2\nprint(t, u, v)\n", 'List': "l = [1, *[2, 3]]\nprint(l)\n", 'Attribute': "import math\nprint(math.pi.real.imag)\n",
    'Subscript': "d = {'a': [1]}\nprint(d['a'][0])\nd['a'][0] = 2\n", 'Call': "def f(a, *b, c=1, **d):\n    return a\nprint(f(1, 2, *[3], c=4, **{'e': 5}))\n",
    'Constant': "print(None, True, 1, 1.5, 1j, 'a', b'a')\n", 'Pass': "pass\n", 'Break': "for i in [1]:\n    break\n", 'Return': "def f():\n    return\nf()\n",
    'TypeAlias': "type Vec = list[float]\n", 'FunctionTypeParams': "def f[T](x: T) -> T:\n    return x\n", 'Module-empty': "", 'docstring-only': "'''doc'''\n",
    'nested-functions-closures': "def outer(n):\n    def inner(m):\n        return n + m\n    return inner\nprint(outer(1)(2))\n",
    'recursion': "def fact(n):\n    return 1 if n < 2 else n * fact(n - 1)\nprint(fact(5))\n",
    'class-inheritance': "class A:\n    def f(self):\n        return 1\nclass B(A):\n    def f(self):\n        return super().f() + 1\nprint(B().f())\n",
    'dataclass': "from dataclasses import dataclass\n@dataclass\nclass P:\n    x: int\n    y: int = 0\nprint(P(1).x)\n",
    'string-methods-chain': "print('a b'.split()[0].upper().center(5, '*'))\n", 'unpack-in-for': "for k, v in {'a': 1}.items():\n    print(k, v)\n",
    'chained-assign': "a = b = c = 0\nprint(a, b, c)\n", 'swap': "a, b = 1, 2\na, b = b, a\nprint(a, b)\n", 'walrus-in-comp': "print([y for x in [1, 2] if (y := x * 2) > 2])\n",
    'try-finally-return': "def f():\n    try:\n        return 1\n    finally:\n        print('x')\nf()\n", 'conditional-import': "try:\n    import json\nexcept ImportError:\n    json = None\nprint(json)\n",
    'print-file': "import sys\nprint('x', file=sys.stderr, sep='', end='')\n", 'star-expr-call': "args = [1, 2]\nprint(max(*args))\n",
    'slice-assign': "l = [1, 2, 3]\nl[0:2] = [9]\nprint(l)\n", 'del-attr': "class A:\n    pass\na = A()\na.x = 1\ndel a.x\n", 'lambda-default-capture': "fs = [lambda i=i: i for i in range(3)]\nprint(fs[0]())\n",
}

STD_MODULES = ['math', 'random', 'string', 'json', 'time', 'datetime', 'os', 'sys', 're', 'collections', 'itertools', 'functools', 'statistics',
               'turtle', 'csv', 'copy', 'typing', 'dataclasses', 'decimal', 'fractions', 'operator', 'pprint', 'textwrap', 'unittest']

METHOD_ARGS = {
    'str': {'center': "(9, '*')", 'count': "('a')", 'encode': "('utf-8')", 'endswith': "('c')", 'expandtabs': "(4)", 'find': "('b')", 'format': "(1, x=2)",
            'format_map': "({'x': 1})", 'index': "('a')", 'join': "(['x', 'y'])", 'ljust': "(9)", 'lstrip': "()", 'maketrans': "('a', 'b')", 'partition': "('b')",
            'removeprefix': "('a')", 'removesuffix': "('c')", 'replace': "('a', 'b')", 'rfind': "('b')", 'rindex': "('b')", 'rjust': "(9)", 'rpartition': "('b')",
            'rsplit': "('b')", 'rstrip': "()", 'split': "('b')", 'splitlines': "()", 'startswith': "('a')", 'strip': "()", 'translate': "({97: 98})", 'zfill': "(9)"},
    'list': {'append': "(4)", 'count': "(1)", 'extend': "([4, 5])", 'index': "(1)", 'insert': "(0, 9)", 'pop': "()", 'remove': "(1)", 'sort': "()", 'reverse': "()", 'copy': "()", 'clear': "()"},
    'dict': {'get': "('a', 0)", 'pop': "('a')", 'popitem': "()", 'setdefault': "('z', 1)", 'update': "({'b': 2})", 'fromkeys': "(['x'], 0)", 'items': "()", 'keys': "()", 'values': "()", 'copy': "()", 'clear': "()"},
    'tuple': {'count': "(1)", 'index': "(1)"},
    'set': {'add': "(4)", 'difference': "({1})", 'difference_update': "({1})", 'discard': "(1)", 'intersection': "({1})", 'intersection_update': "({1})", 'isdisjoint': "({9})",
            'issubset': "({1, 2, 3})", 'issuperset': "({1})", 'remove': "(1)", 'symmetric_difference': "({1})", 'symmetric_difference_update': "({1})", 'union': "({9})", 'update': "({9})",
            'pop': "()", 'copy': "()", 'clear': "()"},
    'int': {'bit_length': "()", 'bit_count': "()", 'conjugate': "()", 'to_bytes': "(2, 'big')", 'from_bytes': "([0, 1], 'big')", 'as_integer_ratio': "()", 'is_integer': "()"},
    'float': {'as_integer_ratio': "()", 'conjugate': "()", 'fromhex': "('0x1p0')", 'hex': "()", 'is_integer': "()"},
}
RECEIVERS = {'str': "'abc'", 'list': '[1, 2, 3]', 'dict': "{'a': 1}", 'tuple': '(1, 2, 3)', 'set': '{1, 2, 3}', 'int': '5', 'float': '2.5'}

# the same methods on other receivers of the type (empty, built up by statements, other element/key types) and with other
# argument lists (fewer arguments, a key of another type)
ALT_RECEIVERS = {
    'str': ["''", "input()", "str(5)"],
    'list': ['[]', 'list()', "['a', 'b']", '[1, 2.5]', "[[1], [2]]"],
    'dict': ['{}', 'dict()', "{1: 'x'}", "{'a': 1, 'b': 'two'}", "{'a': [1]}"],
    'tuple': ['()', "(1, 'a')", "tuple()"],
    'set': ['set()', "{'a', 'b'}"],
}
BUILT_UP = {
    'list': "value = []\nvalue.append(1)\n", 'dict': "value = {}\nvalue['k'] = 1\n", 'set': "value = set()\nvalue.add(1)\n",
    'str': "value = ''\nvalue += 'ab'\n",
}
ALT_ARGS = {
    'dict': {'get': ["('a')", "(1)", "('zz', None)", "(1, 'dflt')", "('k')"], 'pop': ["('zz', 0)", "(1)", "('k')", "('k', None)"], 'setdefault': ["('a')", "(1, [])", "('k')"],
             'update': ["({})", "(x=1)", "([('p', 1)])"], 'fromkeys': ["('ab')", "([1, 2])"]},
    'list': {'pop': ["(0)", "(-1)"], 'index': ["('a')", "(1, 0)"], 'sort': ["(reverse=True)", "(key=len)"], 'count': ["('a')"], 'insert': ["(1, 'x')"], 'extend': ["('ab')", "([])"],
             'remove': ["('a')"], 'append': ["('s')", "([1])", "(None)"]},
    'str': {'split': ["()", "(',', 1)"], 'join': ["([])", "('ab')"], 'replace': ["('a', 'b', 1)"], 'strip': ["('a')"], 'find': ["('b', 1)"], 'format': ["()", "('a', 'b')"],
            'count': ["('a', 1)"], 'startswith': ["(('a', 'b'))"], 'center': ["(9)"], 'encode': ["()"], 'splitlines': ["(True)"]},
    'set': {'add': ["('a')"], 'union': ["()", "([1], {2})"], 'update': ["([1])"], 'pop': ["()"], 'discard': ["('zz')"]},
    'tuple': {'index': ["('a')"], 'count': ["('a')"]},
}

BUILTIN_ARGS = {
    'abs': '(-1)', 'all': '([True])', 'any': '([False])', 'ascii': "('a')", 'bin': '(5)', 'bool': '(1)', 'bytearray': '(3)', 'bytes': "('a', 'utf-8')", 'callable': '(len)',
    'chr': '(65)', 'complex': '(1, 2)', 'dict': '(a=1)', 'dir': '()', 'divmod': '(7, 2)', 'enumerate': "(['a'])", 'filter': '(None, [0, 1])', 'float': "('1.5')", 'format': "(3.14159, '.2f')",
    'frozenset': '([1])', 'getattr': "('a', 'upper')", 'hasattr': "('a', 'upper')", 'hash': "('a')", 'hex': '(255)', 'id': '(1)', 'input': "('? ')", 'int': "('5')", 'isinstance': '(1, int)',
    'issubclass': '(bool, int)', 'iter': '([1])', 'len': "('abc')", 'list': "('abc')", 'map': '(str, [1, 2])', 'max': '([1, 2])', 'min': '(1, 2)', 'next': '(iter([1]), None)', 'object': '()',
    'oct': '(8)', 'open': "('f.txt')", 'ord': "('a')", 'pow': '(2, 3)', 'print': "('x', 1, sep='-')", 'range': '(1, 10, 2)', 'repr': '([1])', 'reversed': '([1, 2])', 'round': '(2.567, 1)',
    'set': '([1, 1])', 'slice': '(1, 2)', 'sorted': '([3, 1, 2])', 'str': '(12)', 'sum': '([1, 2])', 'tuple': '([1, 2])', 'type': '(1)', 'vars': '()', 'zip': "([1], ['a'])",
    'locals': '()', 'globals': '()', 'memoryview': None, 'anext': None, 'aiter': None, 'breakpoint': None, 'help': None, 'exit': None, 'quit': None, 'copyright': None, 'credits': None, 'license': None,
    'compile': "('1', 'f', 'eval')", 'eval': "('1 + 1')", 'exec': "('x = 1')", 'delattr': None, 'setattr': None, 'classmethod': None, 'staticmethod': None, 'property': None, 'super': None, '__import__': "('math')",
    '__build_class__': None,
}


# introductory programs with the usual beginner mistakes and with type annotations: all must be analysed to completion
INTRO_PROGRAMS = {
    # dictionaries whose values (or keys) are of several kinds, walked through every view
    'dict:mixed-values-items-nested-loop': 'd = {"a": 1, "b": [1]}\nfor k, v in d.items():\n    for q in v:\n        print(k, q)\n',
    'dict:mixed-values-values-nested-loop': 'd = {"a": 1, "b": [1]}\nfor v in d.values():\n    for q in v:\n        print(q)\n',
    'dict:mixed-keys-keys-nested-loop': 'd = {"a": 1, 2: [1]}\nfor k in d.keys():\n    for q in k:\n        print(q)\n',
    'dict:mixed-values-items-used': 'd = {"a": 1, "b": "x"}\nfor k, v in d.items():\n    print(k, v)\ntotal = 0\nfor v in d.values():\n    total = total + len(str(v))\nprint(total)\n',
    'dict:mixed-values-list-of-items': 'd = {"name": "Ada", "age": 36, "tags": ["x"]}\npairs = list(d.items())\nfirst = pairs[0]\nprint(first, len(d.keys()), sorted(d.keys()))\n',
    'dict:built-up-mixed-values': 'd = {}\nd["a"] = 1\nd["b"] = "two"\nd["c"] = [3]\nfor k, v in d.items():\n    print(k, v)\nfor v in d.values():\n    print(v)\n',
    'stub:function-body-ellipsis': "def todo():\n    ...\ntodo()\n", 'stub:class-body-ellipsis': "class Shape:\n    ...\nprint(Shape())\n",
    'stub:if-body-ellipsis': "x = 1\nif x:\n    ...\nelse:\n    print(x)\n", 'stub:ellipsis-value': "later = ...\nprint(later)\n",
    'mistake:call-a-number': "width = 3\narea = 2(width + 4)\nprint(area)\n",
    'mistake:call-a-list-literal': "first = [1, 2, 3](0)\nprint(first)\n",
    'mistake:call-a-method-result': "parts = 'a,b'.split(',')(1)\nprint(parts)\n",
    'mistake:call-a-call-result': "xs = [1]\nn = len(xs)()\nprint(n)\n",
    'mistake:call-a-variable': "count = 5\ncount()\n",
    'mistake:call-a-string': "print('hello'())\n",
    'mistake:method-without-parens': "name = 'x'\nprint(name.upper)\n",
    'mistake:append-to-int': "x = 5\nx.append(1)\n",
    'mistake:iterate-int': "for i in 5:\n    print(i)\n",
    'mistake:undefined-name': "print(undefined)\n",
    'mistake:wrong-arity': "def f(a):\n    return a\nprint(f())\nprint(f(1, 2))\n",
    'mistake:str-plus-int': "age = 5\nprint('Age: ' + age)\n",
    'mistake:index-a-number': "n = 5\nprint(n[0])\n",
    'mistake:attribute-of-none': "x = None\nprint(x.value)\n",
    'mistake:return-outside': "def f():\n    pass\nresult = f()\nprint(result + 1)\n",
    'mistake:overwrite-builtin': "list = [1, 2]\nprint(list)\nsum = 0\nfor v in list:\n    sum = sum + v\nprint(sum)\n",
    'mistake:unused-and-overwritten': "total = 0\ntotal = 5\nunused = 1\nprint(total)\n",
    'mistake:dict-call': "d = {'a': 1}\nprint(d('a'))\n",
    'annotated:list-then-bare-list': "scores: list[int] = []\nnames = list()\nnames.append('Ada')\nprint(names, scores)\n",
    'annotated:function-params': "def longest(words: list[str]) -> str:\n    best = ''\n    for w in words:\n        if len(w) > len(best):\n            best = w\n    return best\nnames = list()\nnames.append(3)\nprint(longest(['a', 'bb']), names)\n",
    'annotated:dict-and-set': "ages: dict[str, int] = {}\nseen: set[int] = set()\nother = dict()\nother['k'] = 1.5\nbag = set()\nbag.add('x')\nprint(ages, seen, other, bag)\n",
    'annotated:tuple-and-optional': "pair: tuple[int, str] = (1, 'a')\nthing = tuple()\nprint(pair, thing)\n",
    'mistake:assign-to-a-str-method': "print('x'.upper())\ns = 'abc'\ns.upper = 5\nprint(s)\n",
    'mistake:assign-to-an-int-method': "x = 5\nprint((7).bit_length())\nx.bit_length = 3\nprint(x)\n",
    'mistake:assign-attribute-on-list': "items = [1]\nitems.size = 1\nprint(items, [2].count(2))\n",
    'mistake:assign-attribute-on-float': "ratio = 0.5\nratio.pct = 50\nprint(ratio, (1.5).is_integer())\n",
    'mistake:assign-attribute-on-bool-none': "flag = True\nflag.why = 'x'\nnothing = None\nnothing.kind = 1\nprint(flag, nothing)\n",
    'mistake:call-a-number': "x = 1\nx()\n", 'mistake:call-a-string': "'a'()\n", 'mistake:call-the-result-of-print': "print(1)(2)\n",
    'annotated:nested': "grid: list[list[int]] = [[1]]\nrow = list()\nrow.append('x')\nprint(grid, row)\n",
    'annotated:return-generic': "def make() -> list[float]:\n    return [1.5]\nvalues = list()\nvalues.append(True)\nprint(make(), values)\n",
}


def issue_list(t):
    out = []
    for label, fbs in (t.issues or {}).items():
        for fb in fbs:
            name = None
            try:
                name = fb.fields.get('name')
            except Exception:
                pass
            line = getattr(getattr(fb, 'location', None), 'line', None)
            out.append((label, str(name), line))
    return sorted(out, key=repr)


def site_of(exc):
    tb = traceback.extract_tb(exc.__traceback__)
    for fr in reversed(tb):
        if '/pedal/' in fr.filename:
            return '%s:%s' % (fr.filename.split('/pedal/')[-1], fr.name)
    return 'outside-pedal'


FORMATTERS = ['default', 'default', 'html', 'text']


def use_formatter(ctx, src, which=None):
    """the report's formatter is the environment's choice (web environments use the HTML one): issue messages are rendered through it
    while the analysis runs"""
    from pedal.core.report import MAIN_REPORT
    from pedal.core import formatting
    import zlib
    which = which or FORMATTERS[zlib.crc32(src.encode('utf-8', 'replace')) % len(FORMATTERS)]
    if which == 'html':
        MAIN_REPORT.format = formatting.HtmlFormatter()
    elif which == 'text':
        MAIN_REPORT.format = formatting.TextFormatter()
    ctx.seen('report_formatters', which)
    return which


_PRIVATE = [0]


def check_program(ctx, src, origin, must_complete, tag=None, formatter=None):
    from pedal.core.commands import clear_report, contextualize_report
    from pedal.core.report import MAIN_REPORT
    from pedal.tifa import tifa_analysis
    try:
        tree = ast.parse(src)
    except (SyntaxError, ValueError, RecursionError, MemoryError):
        ctx.count('skipped_not_parsable')
        return
    case = {'src': src if len(src) < 4000 else None, 'origin': origin, 'tag': tag}
    if case['src'] is None:
        case['path'] = tag
    nlines = src.count('\n') + 1
    clear_report()
    contextualize_report(src)
    case['formatter'] = use_formatter(ctx, src, formatter)
    report = MAIN_REPORT
    try:
        t1 = tifa_analysis()
    except BaseException as e:
        ctx.violation('C18|tifa-raised|%s|%s' % (type(e).__name__, site_of(e)), case, traceback.format_exc()[-600:])
        return
    ctx.count('analyses_checked')
    n_fb = len(report.feedback)
    i1 = issue_list(t1)
    nt = None
    if len(tree.body) >= 1 and not (len(tree.body) == 1 and isinstance(tree.body[0], ast.Expr) and isinstance(tree.body[0].value, ast.Constant)):
        nt = 'S:' + src[:3000]
    ctx.case(nt)
    if not getattr(t1, 'success', False):
        if must_complete:
            err = getattr(t1, 'error', None)
            ctx.violation('C18|analysis-did-not-complete|%s|%s|%s%s' % (origin, type(err).__name__, site_of(err) if isinstance(err, BaseException) else '?',
                                                                         '' if case['formatter'] == 'default' else '|formatter=' + case['formatter']),
                          case, '%r' % (err,))
        else:
            ctx.count('internal_failures_on_non_introductory_code_(not judged)')
            ctx.seen('failure_sites_non_introductory', '%s@%s' % (type(getattr(t1, 'error', None)).__name__, site_of(t1.error) if isinstance(getattr(t1, 'error', None), BaseException) else '?'))
    else:
        ctx.count('completed_analyses')
    # ---- lines --------------------------------------------------------------------------------------------
    for label, name, line in i1:
        if line is None:
            ctx.violation('C18|issue-without-a-line|%s' % label, case, 'issue %s (%s) carries no line at all' % (label, name))
            break
        if line is not None and not (1 <= line <= nlines):
            ctx.violation('C18|issue-line-outside-source|%s' % label, case, 'line %r, source has %d lines' % (line, nlines))
            break
    # ---- idempotence on the same report ------------------------------------------------------------------
    try:
        t2 = tifa_analysis()
    except BaseException as e:
        ctx.violation('C18|second-call-raised|%s' % type(e).__name__, case, traceback.format_exc()[-400:])
        return
    i2 = issue_list(t2)
    if i2 != i1:
        ctx.violation('C18|second-call-different-issues|%s' % origin_family(origin), case, {'first': i1[:8], 'second': i2[:8]})
    if len(report.feedback) != n_fb:
        ctx.violation('C18|second-call-attached-feedback|%s' % ('failed-analysis' if not getattr(t1, 'success', False) else 'completed-analysis'), case,
                      'feedback count %d -> %d: %s' % (n_fb, len(report.feedback), [f.label for f in report.feedback[n_fb:]][:5]))
    # ---- determinism on a fresh report -----------------------------------------------------------------
    clear_report()
    contextualize_report(src)
    use_formatter(ctx, src, case['formatter'])
    try:
        t3 = tifa_analysis()
    except BaseException as e:
        ctx.violation('C18|fresh-report-call-raised|%s' % type(e).__name__, case, traceback.format_exc()[-400:])
        return
    i3 = issue_list(t3)
    if i3 != i1:
        ctx.violation('C18|fresh-report-different-issues|%s' % origin_family(origin), case, {'first': i1[:8], 'fresh': i3[:8]})
    if bool(getattr(t3, 'success', False)) != bool(getattr(t1, 'success', False)):
        ctx.violation('C18|fresh-report-different-success', case, '%r vs %r' % (t1.success, t3.success))
    # ---- the same analysis on a report object of the grader's own: same issues, all of them recorded in THAT report ---------
    _PRIVATE[0] += 1
    if _PRIVATE[0] % 4 == 0:
        from pedal.core.report import Report
        private = Report()
        main_before = len(report.feedback) + len(report.ignored_feedback)
        try:
            contextualize_report(src, report=private)
            t4 = tifa_analysis(report=private)
        except BaseException as e:
            ctx.violation('C18|private-report-call-raised|%s' % type(e).__name__, case, traceback.format_exc()[-400:])
            return
        ctx.count('analyses_on_a_private_report')
        i4 = issue_list(t4)
        if i4 != i1:
            ctx.violation('C18|private-report-different-issues|%s' % origin_family(origin), case, {'default report': i1[:8], 'private report': i4[:8]})
        strayed = (report.feedback + report.ignored_feedback)[main_before:]
        if strayed:
            ctx.violation('C18|issues-of-a-private-report-attached-to-the-default-report', case,
                          '%d feedback objects landed on the default report: %s' % (len(strayed), sorted({f.label for f in strayed})[:6]))
    if ctx.evaluations % 97 == 0:
        ctx.sample({'origin': origin, 'tag': tag, 'src': src[:300], 'success': t1.success, 'issues': i1[:6]})


def check_interleaved(ctx, src_a, src_b):
    """repetition with other analyses in between, on ONE report: A, B, A, B, A - the repeats return the same issues and attach nothing"""
    from pedal.core.commands import clear_report, contextualize_report
    from pedal.core.report import MAIN_REPORT
    from pedal.tifa import tifa_analysis
    for s_ in (src_a, src_b):
        try:
            ast.parse(s_)
        except (SyntaxError, ValueError, RecursionError, MemoryError):
            return
    if src_a == src_b:
        return
    case = {'interleaved': [src_a[:3000], src_b[:3000]]}
    clear_report()
    contextualize_report(src_a)
    report = MAIN_REPORT
    try:
        first_a = issue_list(tifa_analysis())
        first_b = issue_list(tifa_analysis(code=src_b))
        n_fb = len(report.feedback)
        for rep in range(2):
            again_a = issue_list(tifa_analysis())
            again_b = issue_list(tifa_analysis(code=src_b))
            ctx.count('interleaved_repetitions_checked', 2)
            if again_a != first_a or again_b != first_b:
                ctx.violation('C18|interleaved-repetition-different-issues', case, {'first': first_a[:6], 'again': again_a[:6]})
                return
            if len(report.feedback) != n_fb:
                ctx.violation('C18|interleaved-repetition-attached-feedback', case,
                              'feedback count %d -> %d after analysing A, B, A, B again: %s' % (n_fb, len(report.feedback), [f.label for f in report.feedback[n_fb:]][:5]))
                return
    except BaseException as e:
        ctx.violation('C18|tifa-raised|%s|%s' % (type(e).__name__, site_of(e)), case, traceback.format_exc()[-600:])


MODULE_ATTRIBUTE_PAIRS = [
    ('import math\nmath.pi = "3.14"\nprint(math.pi)\n', 'import math\nradius = 2\narea = math.pi * radius ** 2\nprint(area)\n'),
    ('import random\nrandom.randint = 4\nprint(random.randint)\n', 'import random\nroll = random.randint(1, 6) + 1\nprint(roll)\n'),
    ('import math\nmath.sqrt = "root"\nprint(math.sqrt)\n', 'import math\nside = math.sqrt(16) + 1\nprint(side)\n'),
    ('import string\nstring.digits = 5\nprint(string.digits)\n', 'import string\nallowed = string.digits + "abc"\nprint(allowed)\n'),
    ('import time\ntime.time = "now"\nprint(time.time)\n', 'import time\nstarted = time.time() + 1\nprint(started)\n'),
]


def check_after_a_program_that_assigns_to_a_module(ctx):
    """The same code gives the same issues on a fresh report whatever was analysed before on another one - also a program that
    assigned to an attribute of a standard module (TIFA follows such assignments within one analysis)."""
    from pedal.core.report import Report
    from pedal.core.commands import contextualize_report
    from pedal.tifa import tifa_analysis

    def alone(src):
        r = Report()
        contextualize_report(src, report=r)
        return issue_list(tifa_analysis(report=r))
    for src_a, src_b in MODULE_ATTRIBUTE_PAIRS:
        case = {'src': src_b, 'origin': 'after-a-program-that-assigns-to-a-module', 'earlier': src_a}
        try:
            first = alone(src_b)
            alone(src_a)
            after = alone(src_b)
            ctx.count('analyses_after_a_program_that_assigned_to_a_module')
            ctx.case('modattr:' + src_a[:40] + src_b[:40])
            if after != first:
                ctx.violation('C18|same-code-other-issues-after-another-program-was-analysed|module-attribute', case, {'first': first[:6], 'after the other program': after[:6]})
        except BaseException as e:
            ctx.violation('C18|tifa-raised|%s|%s' % (type(e).__name__, site_of(e)), case, traceback.format_exc()[-600:])


def check_given_code_in_a_section(ctx, src):
    """code handed to tifa_analysis(code=...) while a section of the submission is active: the issues are those of that code, on
    that code's own lines"""
    from pedal.core.commands import clear_report, contextualize_report
    from pedal.core.report import MAIN_REPORT
    from pedal.source import separate_into_sections, next_section
    from pedal.tifa import tifa_analysis
    try:
        ast.parse(src)
    except (SyntaxError, ValueError, RecursionError, MemoryError):
        return
    if '##### Part' in src:
        return
    case = {'given_code_in_a_section': src[:3000]}
    nlines = src.count('\n') + 1
    try:
        clear_report()
        contextualize_report(src)
        plain = issue_list(tifa_analysis())
        clear_report()
        contextualize_report('first = 0\nprint(first)\n\n\n##### Part 1\nsecond = 1\nprint(second)\n##### Part 2\nthird = 2\nprint(third)\n')
        separate_into_sections(independent=True)
        next_section()
        next_section()
        got = issue_list(tifa_analysis(code=src))
    except BaseException as e:
        ctx.violation('C18|tifa-raised|%s|%s' % (type(e).__name__, site_of(e)), case, traceback.format_exc()[-600:])
        return
    ctx.count('analyses_of_given_code_while_a_section_is_active')
    for label, name, line in got:
        if line is not None and not (1 <= line <= nlines):
            ctx.violation('C18|issue-line-outside-source|%s|given-code-while-a-section-is-active' % label, case, 'line %r, the analysed source has %d lines' % (line, nlines))
            return
    if got != plain:
        ctx.violation('C18|given-code-analysed-differently-while-a-section-is-active', case, {'alone': plain[:6], 'in a section': got[:6]})


def origin_family(origin):
    return origin.split(':')[0]


def sweep_programs():
    out = []
    for name in sorted(dir(builtins)):
        obj = getattr(builtins, name)
        if not callable(obj) or (isinstance(obj, type) and issubclass(obj, BaseException)) or name.startswith('_') and name != '__import__':
            continue
        args = BUILTIN_ARGS.get(name, '()')
        if args is None:
            continue
        out.append(('builtin:' + name, 'result = %s%s\nprint(result)\n' % (name, args)))
        out.append(('builtin-in-loop:' + name, 'total = []\nfor i in range(2):\n    value = %s%s\n    total.append(value)\nprint(total)\n' % (name, args)))
    for tname, recv in RECEIVERS.items():
        typ = getattr(builtins, tname)
        for m in sorted(dir(typ)):
            if m.startswith('_'):
                continue
            args = METHOD_ARGS.get(tname, {}).get(m, '()')
            out.append(('method:%s.%s' % (tname, m), 'value = %s\nresult = value.%s%s\nprint(result, value)\n' % (recv, m, args)))
    # the same calls written as statements of their own, on the literal and on a variable (the result is dropped)
    for tname, recv in RECEIVERS.items():
        typ = getattr(builtins, tname)
        for m in sorted(dir(typ)):
            if m.startswith('_'):
                continue
            args = METHOD_ARGS.get(tname, {}).get(m, '()')
            lit = recv if not recv[0].isdigit() and recv[0] != '-' else '(%s)' % recv
            out.append(('method-as-a-statement:%s.%s' % (tname, m), '%s.%s%s\nvalue = %s\nvalue.%s%s\nprint(value)\n' % (lit, m, args, recv, m, args)))
    for tname in ALT_RECEIVERS:
        typ = getattr(builtins, tname)
        for m in sorted(dir(typ)):
            if m.startswith('_'):
                continue
            default_args = METHOD_ARGS.get(tname, {}).get(m, '()')
            for ri, recv in enumerate(ALT_RECEIVERS[tname]):
                out.append(('method-other-receiver:%s.%s#%d' % (tname, m, ri), 'value = %s\nresult = value.%s%s\nprint(result, value)\n' % (recv, m, default_args)))
            if tname in BUILT_UP:
                out.append(('method-built-up-receiver:%s.%s' % (tname, m), '%sresult = value.%s%s\nprint(result, value)\n' % (BUILT_UP[tname], m, default_args)))
            for ai, args in enumerate(ALT_ARGS.get(tname, {}).get(m, [])):
                for ri, recv in enumerate([RECEIVERS[tname]] + ALT_RECEIVERS[tname][:2]):
                    out.append(('method-other-arguments:%s.%s#%d.%d' % (tname, m, ai, ri), 'value = %s\nresult = value.%s%s\nprint(result, value)\n' % (recv, m, args)))
                if tname in BUILT_UP:
                    out.append(('method-other-arguments:%s.%s#%d.b' % (tname, m, ai), '%sresult = value.%s%s\nprint(result, value)\n' % (BUILT_UP[tname], m, args)))
    # indexing and slicing: every kind of sequence (literal, repeated, converted, built up, empty) by every kind of index
    seqs = {'str-literal': "'hello'", 'str-input': "input()", 'list-literal': "[3, 1, 2]", 'list-repeated': "[0] * n", 'list-converted': "list(range(n))", 'list-empty': "[]",
            'tuple-literal': "(3, 'a', 2.5)", 'tuple-repeated': "(0,) * n", 'tuple-repeated-left': "n * ('.',)", 'tuple-converted': "tuple([1, 2, 3])", 'tuple-empty': "tuple()",
            'tuple-of-input': "tuple(input())", 'dict-literal': "{0: 'a', 1: 'b'}", 'range': "range(n)", 'split': "'a b c'.split()"}
    idxs = {'literal': "0", 'literal-negative': "-1", 'variable': "i", 'expression': "len(seq) - 1", 'half': "n // 2", 'loop-variable': None, 'slice': "1:", 'slice-vars': "i:n", 'slice-step': "::2"}
    for sk, sexpr in seqs.items():
        for ik, iexpr in idxs.items():
            if sk.startswith('dict') and ik.startswith('slice'):
                continue
            if ik == 'loop-variable':
                body = 'for k in range(n):\n    print(seq[k])\n'
            else:
                body = 'print(seq[%s])\n' % iexpr
            out.append(('indexing:%s[%s]' % (sk, ik), 'n = 3\ni = 1\nseq = %s\n%s' % (sexpr, body)))
    for mod in STD_MODULES:
        out.append(('import:' + mod, 'import %s\nprint(%s)\n' % (mod, mod)))
        out.append(('from-import:' + mod, 'from %s import *\nx = 1\nprint(x)\n' % mod))
    for tag, src in sorted(INTRO_PROGRAMS.items()):
        out.append((tag, src))
    out.append(('import:math-use', 'import math\nfrom random import randint, choice\nr = math.sqrt(16) + math.pi + randint(1, 6)\nprint(r, choice([1, 2]))\n'))
    return out


def run(ctx):
    from gen.programs import gen_program
    from gen import corpus
    rng = ctx.rng
    repo = os.path.realpath(os.environ.get('VERIF_REPO', '/repo'))
    # 1. completeness sweep (finite: enumerated completely in both tiers)
    sweep = sweep_programs()
    previous = None
    for i, (tag, src) in enumerate(sweep):
        if i % ctx.nshards == ctx.shard:
            ctx.count('sweep_cells')
            ctx.seen('sweep_kinds', tag.split(':')[0])
            check_program(ctx, src, 'sweep:' + tag.split(':')[0], True, tag)
            if tag.startswith(('method-as-a-statement', 'mistake')):
                for which in ('html', 'text', 'default'):
                    check_program(ctx, src, 'sweep:' + tag.split(':')[0], True, tag, formatter=which)
            if previous is not None and (tag.startswith(('mistake', 'intro', 'annotated')) or i % 5 == 0):
                check_interleaved(ctx, src, previous)
            if i % 7 == 0:
                check_given_code_in_a_section(ctx, src)
            previous = src
    if ctx.shard % 4 == 2:
        check_after_a_program_that_assigns_to_a_module(ctx)
    # 2. node snippets
    for i, (k, src) in enumerate(sorted(NODE_SNIPPETS.items())):
        if i % ctx.nshards == ctx.shard:
            ctx.seen('node_snippets', k)
            check_program(ctx, src, 'node-snippet', False, k)
    # 3. corpus
    files = corpus.corpus_files(max_bytes=ctx.pick(15000, 60000), repo=repo)
    mine = files[ctx.shard::ctx.nshards]
    rng.shuffle(mine)
    for path in mine[:ctx.pick(40, len(mine))]:
        if ctx.time_left() < 8:
            break
        text = corpus.read(path)
        if text is None:
            continue
        ctx.count('corpus_files')
        check_program(ctx, text, 'corpus', False, path)
    # 4. generated CS1 programs (introductory subset: must complete)
    for _ in range(ctx.pick(700, 6000)):
        if ctx.time_left() < 3:
            break
        p = gen_program(rng)
        check_program(ctx, p.src, 'generated', True)
        if previous is not None and rng.random() < 0.3:
            check_interleaved(ctx, p.src, previous)
        if rng.random() < 0.1:
            check_given_code_in_a_section(ctx, p.src)
        previous = p.src


def replay(ctx, case):
    if case.get('given_code_in_a_section'):
        return check_given_code_in_a_section(ctx, case['given_code_in_a_section'])
    if case.get('interleaved'):
        return check_interleaved(ctx, case['interleaved'][0], case['interleaved'][1])
    src = case.get('src')
    if src is None and case.get('path'):
        from gen import corpus
        src = corpus.read(case['path'])
    check_program(ctx, src, case.get('origin', 'replay'), case.get('origin', '').startswith(('sweep', 'generated')), case.get('tag'), formatter=case.get('formatter'))
