"""C08 - static ensure_*/prevent_* checks agree with the student's actual syntax tree."""
import ast
import traceback

ID = 'C08'
LEVEL = 'exploration'
TECHNIQUE = 'differential oracle: plain ast.walk counting (operator symbol / call name / literal of the same type / literal type / node kind / imported module) vs the real ensure_*/prevent_*/find_* on generated and corpus programs, at thresholds around the true count'
LEVEL_TEXT = ('Held on the queries observed: for each program (generated CS1 programs enriched with every documented operator symbol, '
              'chained comparisons, nested calls, f-strings, imports; plus real files) the oracle counts occurrences with a plain walk of '
              'Python\'s own tree, then ensure_X(name, at_least=n) / prevent_X(name, at_most=m) are evaluated for n, m around the count: '
              'ensure fires iff count < n, prevent fires iff count > m, the reported line is a line of one of the oracle\'s nodes, and '
              'find_operation/find_function_calls/find_asts return nodes at exactly the oracle\'s positions. The symbol table (all '
              'comparison, boolean, binary and unary symbols) is covered completely in both tiers; queries for other code through '
              'CAIT are interleaved so that a stale tree would show; the program is also put on a report of the grader\'s own.')
LEVEL_NOTE = ('Symbol -> node class comes from Python\'s grammar, not from pedal\'s tables. + and - are binary only (as pedal documents); '
              'augmented assignment is a different symbol. ensure/prevent_import thresholds are documented as ignored.')
RULE = ('Query = (program, query kind, name/symbol/literal/type, threshold relation). Non-trivial: the queried thing occurs at least '
        'once, or the query is a near miss (same value of another type, a symbol whose table row differs). Distinct = distinct query.')
ASSUMPTIONS = ['ast.walk over ast.parse(program) is the reference count']
SHARDS = {'quick': 16, 'thorough': 32}
BUDGET = {'quick': 45, 'thorough': 1200}
MIN_NONTRIVIAL = {'quick': 3000, 'thorough': 60000}
REQUIRED_COUNTERS = {'quick': ['queries_checked', 'symbols_checked', 'node_positions_compared'], 'thorough': ['queries_checked', 'symbols_checked', 'node_positions_compared']}

SYMBOLS = {
    '==': ast.Eq, '!=': ast.NotEq, '<': ast.Lt, '<=': ast.LtE, '>': ast.Gt, '>=': ast.GtE, 'is': ast.Is, 'is not': ast.IsNot,
    'in': ast.In, 'not in': ast.NotIn, 'and': ast.And, 'or': ast.Or, '+': ast.Add, '-': ast.Sub, '*': ast.Mult, '/': ast.Div,
    '//': ast.FloorDiv, '%': ast.Mod, '**': ast.Pow, '<<': ast.LShift, '>>': ast.RShift, '|': ast.BitOr, '^': ast.BitXor,
    '&': ast.BitAnd, '@': ast.MatMult, 'not': ast.Not, '~': ast.Invert,
}

SYMBOL_PROGRAM = '''
a = 5
b = 3
c = [1, 2]
r1 = a == b
r2 = a != b
r3 = a < b
r4 = a <= b
r5 = a > b
r6 = a >= b
r7 = a is b
r8 = a is not b
r9 = a in c
r10 = a not in c
r11 = a and b
r12 = a or b
r13 = a + b
r14 = a - b
r15 = a * b
r16 = a / b
r17 = a // b
r18 = a % b
r19 = a ** b
r20 = a << b
r21 = a << 1 << 2
r22 = a >> b
r23 = a | b
r24 = a ^ b
r25 = a & b
r27 = not a
r28 = ~a
r29 = a <= b <= 7 >= 3
r30 = -a + +b
'''


def oracle_ops(tree):
    """-> {ast class: [(lineno, col) of the owning BinOp/Compare/BoolOp/UnaryOp, one entry per op occurrence]}"""
    out = {}
    for node in ast.walk(tree):
        if isinstance(node, ast.BinOp):
            out.setdefault(type(node.op), []).append((node.lineno, node.col_offset))
        elif isinstance(node, ast.BoolOp):
            out.setdefault(type(node.op), []).append((node.lineno, node.col_offset))
        elif isinstance(node, ast.UnaryOp):
            out.setdefault(type(node.op), []).append((node.lineno, node.col_offset))
        elif isinstance(node, ast.Compare):
            for op in node.ops:
                out.setdefault(type(op), []).append((node.lineno, node.col_offset))
    return out


def oracle_calls(tree):
    out = {}
    for node in ast.walk(tree):
        if isinstance(node, ast.Call):
            if isinstance(node.func, ast.Name):
                out.setdefault(node.func.id, []).append((node.lineno, node.col_offset))
            elif isinstance(node.func, ast.Attribute):
                out.setdefault(node.func.attr, []).append((node.lineno, node.col_offset))
    return out


def oracle_literals(tree):
    """-> list of (value, lineno) for non-None constants; negative numbers appear as (-v) with the UnaryOp's line"""
    consts = []
    negs = []
    for node in ast.walk(tree):
        if isinstance(node, ast.Constant) and node.value is not None and node.value is not Ellipsis:
            consts.append((node.value, node.lineno))
        if isinstance(node, ast.UnaryOp) and isinstance(node.op, ast.USub) and isinstance(node.operand, ast.Constant) and \
                isinstance(node.operand.value, (int, float)) and not isinstance(node.operand.value, bool):
            negs.append((-node.operand.value, node.lineno))
    return consts, negs


def oracle_kinds(tree):
    out = {}
    for node in ast.walk(tree):
        out.setdefault(type(node).__name__, []).append((getattr(node, 'lineno', None), getattr(node, 'col_offset', None)))
    return out


def oracle_modules(tree):
    mods = set()
    for node in ast.walk(tree):
        if isinstance(node, ast.Import):
            for a in node.names:
                mods.add(a.name)
        elif isinstance(node, ast.ImportFrom):
            if node.module and node.level == 0:
                mods.add(node.module)
    return mods


def same_literal(a, b):
    return type(a) is type(b) and a == b and (not isinstance(a, float) or repr(a) == repr(b))


def positions(nodes):
    out = []
    for n in nodes:
        out.append((getattr(n, 'lineno', None), getattr(n, 'col_offset', None)))
    return sorted(out, key=repr)


def _kw():
    from props import cait_common as cc
    return cc.kw()


class Checker:
    def __init__(self, ctx, src, origin, mode=None):
        from pedal.core.commands import clear_report, contextualize_report
        self.ctx = ctx
        self.src = src
        self.tree = ast.parse(src)
        self.line_shift = 0
        clear_report()
        Checker.made += 1
        if mode is None and '|mode=' in origin:
            origin, mode = origin.split('|mode=')
        if mode is None:
            mode = ('plain', 'verified-first', 'plain', 'verified-first', 'second-section', 'plain', 'after-verifying-other-code', 'verified-first',
                    'after-sections-were-stopped', 'attached-without-clearing', 'on-a-report-of-its-own')[Checker.made % 11]
            fresh = True
        else:
            fresh = False
        from props import cait_common as _cc
        _cc.PRESENTED['report'] = None
        if mode in ('after-verifying-other-code', 'after-sections-were-stopped', 'attached-without-clearing', 'on-a-report-of-its-own'):
            # histories after which the Source tool holds the tree of some OTHER text (see props/cait_common.present)
            from props import cait_common as cc
            self.src = cc.present(ctx, src, mode, fresh=fresh)
            mode = cc.PRESENTED['how']
            self.tree = ast.parse(self.src)
            self.origin = origin + '|mode=' + mode
            self.n = 0
            ctx.seen('how_the_program_is_presented', mode)
            return
        if mode == 'second-section' and ('##### Part' in src or '\r' in src or '\x0c' in src):
            mode = 'verified-first'
        self.origin = origin + '|mode=' + mode
        ctx.seen('how_the_program_is_presented', mode)
        if mode == 'second-section':
            # the program is the second part of a sectioned file: the first part was verified (and its tree kept) by the Source
            # tool, then the grader moved on; the questions asked now are about the part that is current, asked before (or
            # without) another verify()
            from pedal.source import set_source, verify, next_section
            from pedal.core.report import MAIN_REPORT
            whole = 'earlier = 1\nprint(earlier + earlier, earlier * 2)\nfor e in [earlier]:\n    pass\n##### Part 1\n' + src
            set_source(whole, sections=True, independent=True)
            verify()
            next_section()
            current = MAIN_REPORT.submission.main_code
            self.tree = ast.parse(current)
            self.line_shift = MAIN_REPORT.submission.line_offsets.get(MAIN_REPORT.submission.main_file, 0)
            ctx.count('programs_presented_as_a_later_section')
        else:
            contextualize_report(src)
        self.n = 0
        if mode == 'verified-first':
            # the usual start of a grading script: the Source tool checks (and keeps a tree of) the submission first
            from pedal.source import verify
            verify()
            ctx.count('programs_verified_by_source_first')

    made = 0
    OTHER = [('zzz = 99 % 7\nprint(zzz)\nimport os\n', 'print(___)', 1, 'For', 0), ('for q in [1]:\n    print(q)\n    print(q, q)\n', 'print(___)', 1, 'For', 1),
             ('import json\nqq = [1] * 3\nwhile qq:\n    qq.pop()\n', 'qq.pop()', 1, 'While', 1)]

    def disturb(self):
        """ask CAIT about some other code in between (a stale tree must not leak into later queries - and the answer about the
        other code is an answer about THAT code, not about the submission)"""
        from pedal.cait.cait_api import find_matches, parse_program, find_asts
        self.n += 1
        if self.n % 5 == 0:
            code, pattern, want_matches, node, want_nodes = self.OTHER[(self.n // 5) % len(self.OTHER)]
            got_nodes = len(find_asts(node, student_code=code))
            got = len(find_matches(pattern, code))
            self.ctx.count('queries_about_other_code_checked')
            if (got >= 1) != (want_matches >= 1) or got_nodes != want_nodes:
                self.ctx.violation('C08|query-about-other-code-answered-from-another-tree', {'src': self.src[:2000], 'origin': self.origin, 'other_code': code, 'pattern': pattern, 'node': node},
                                   'other code has %d %s nodes and matches %r: got %d nodes, %d matches' % (want_nodes, node, pattern, got_nodes, got))
        elif self.n % 7 == 0:
            parse_program('import json\nqq = [1] * 3\n')
        elif self.n % 11 == 0:
            # ... or about code that does not even parse (the answer about THAT code is empty; the submission's is not affected)
            from pedal.cait.cait_api import find_asts
            find_asts('For', student_code='for = = 1\n')
        elif self.n % 13 == 0:
            find_matches('print(___)', 'print(((1)\n')

    def thresholds(self, c):
        return sorted({0, 1, max(0, c - 1), c, c + 1})

    def ensure_prevent(self, kind, ensure_fn, prevent_fn, arg, count, lines, nontrivial, keyname=None):
        ctx = self.ctx
        keyname = keyname or kind
        for n in self.thresholds(count):
            for which, fn, kw, expect in (('ensure', ensure_fn, {'at_least': n}, count < n), ('prevent', prevent_fn, {'at_most': n}, count > n)):
                self.disturb()
                case = {'src': self.src if len(self.src) < 3000 else self.src[:3000], 'origin': self.origin, 'query': '%s_%s' % (which, kind), 'arg': repr(arg), 'threshold': n,
                        'oracle_count': count}
                try:
                    fb = fn(arg, **kw, **_kw())
                except Exception as e:
                    ctx.violation('C08|%s_%s-raised|%s' % (which, keyname, type(e).__name__), case, traceback.format_exc()[-500:])
                    continue
                ctx.count('queries_checked')
                fired = bool(fb)
                rel = 'below' if n < count else ('equal' if n == count else 'above')
                ctx.case(('Q:%s:%s:%r:%s:%s' % (self.src[:1500], which + kind, arg, n, count)) if nontrivial else None)
                if fired != expect:
                    ctx.violation('C08|%s_%s|%s|threshold-%s-count' % (which, keyname, 'fires-wrongly' if fired else 'does-not-fire', rel), case,
                                  'oracle count %d, threshold %d: expected %s' % (count, n, 'fires' if expect else 'silent'))
                elif fired and which == 'prevent' and lines:
                    line = getattr(getattr(fb, 'location', None), 'line', None)
                    ctx.count('lines_checked')
                    if line not in lines:       # (the nodes' own line numbers - in a later section, lines of the section's text)
                        ctx.violation('C08|prevent_%s|line-not-of-an-occurrence' % keyname, case, 'reported line %r, occurrences on lines %s' % (line, sorted(set(lines))[:10]))

    def run(self, rng, full_symbols=False):
        from pedal.assertions import static as st
        from pedal.cait.find_node import find_operation, find_function_calls
        from pedal.cait.cait_api import parse_program
        ctx = self.ctx
        tree = self.tree
        ops = oracle_ops(tree)
        # ---- operator symbols ---------------------------------------------------------------------------------
        syms = list(SYMBOLS) if full_symbols else rng.sample(list(SYMBOLS), 8) + [s for s, c in SYMBOLS.items() if c in ops][:6]
        for sym in dict.fromkeys(syms):
            cls = SYMBOLS[sym]
            occ = ops.get(cls, [])
            if sym in ('+', '-'):
                occ = [p for p in occ]      # binary only: oracle_ops records UnaryOp under UAdd/USub, never under Add/Sub
            ctx.count('symbols_checked')
            ctx.seen('symbols', sym)
            self.ensure_prevent('operation', st.ensure_operation, st.prevent_operation, sym, len(occ), [p[0] for p in occ], True, 'operation[%s]' % sym)
            self.disturb()
            try:
                found = find_operation(sym, **_kw())
            except Exception as e:
                ctx.violation('C08|find_operation-raised|%s' % type(e).__name__, {'src': self.src[:3000], 'arg': sym}, traceback.format_exc()[-400:])
                continue
            ctx.count('node_positions_compared')
            if positions(found) != sorted(occ, key=repr):
                ctx.violation('C08|find_operation|nodes-differ|%s' % sym, {'src': self.src[:3000], 'origin': self.origin, 'query': 'find_operation', 'arg': sym},
                              'oracle positions %s, returned %s' % (sorted(occ)[:8], positions(found)[:8]))
        # ---- calls ----------------------------------------------------------------------------------------------
        calls = oracle_calls(tree)
        names = list(calls)
        rng.shuffle(names)
        for name in names[:5] + ['never_called_fn', 'print', 'len']:
            occ = calls.get(name, [])
            self.ensure_prevent('function_call', st.ensure_function_call, st.prevent_function_call, name, len(occ), [p[0] for p in occ], bool(occ))
            self.disturb()
            found = find_function_calls(name, **_kw())
            ctx.count('node_positions_compared')
            if positions(found) != sorted(occ, key=repr):
                ctx.violation('C08|find_function_calls|nodes-differ', {'src': self.src[:3000], 'origin': self.origin, 'query': 'find_function_calls', 'arg': name},
                              'oracle %s, returned %s' % (sorted(occ)[:8], positions(found)[:8]))
        # ---- literals -------------------------------------------------------------------------------------------
        consts, negs = oracle_literals(tree)
        values = []
        for v, _ in consts + negs:
            if not any(same_literal(v, w) for w in values) and isinstance(v, (int, float, str, bool)) and len(repr(v)) < 40:
                values.append(v)
        rng.shuffle(values)
        probes = values[:5]
        # near misses: the same value in another type
        for v in list(probes):
            if isinstance(v, bool):
                probes.append(int(v))
            elif isinstance(v, int):
                probes += [float(v)] + ([bool(v)] if v in (0, 1) else [])
            elif isinstance(v, float) and v == int(v):
                probes.append(int(v))
        probes += [424242, 'never-used-literal']
        seen = []
        for lit in probes:
            if any(same_literal(lit, w) for w in seen):
                continue
            seen.append(lit)
            if isinstance(lit, (int, float)) and not isinstance(lit, bool) and lit < 0:
                occ = [ln for v, ln in negs if same_literal(v, lit)]
            else:
                occ = [ln for v, ln in consts if same_literal(v, lit)]
                # a positive constant that is the operand of a unary minus is still that constant in Python's tree
            near = any((v == lit and not same_literal(v, lit)) for v, _ in consts)
            tname = type(lit).__name__
            self.ensure_prevent('literal', st.ensure_literal, st.prevent_literal, lit, len(occ), occ, bool(occ) or near,
                                'literal[%s%s]' % (tname, ',same-value-of-other-type-present' if near and not occ else ''))
        # ---- literal types ----------------------------------------------------------------------------------------
        kinds = oracle_kinds(tree)
        for t in (int, float, str, bool, list, dict):
            if t in (list, dict):
                occ = [p[0] for p in kinds.get('List' if t is list else 'Dict', [])]
            else:
                occ = [ln for v, ln in consts if type(v) is t]
            self.ensure_prevent('literal_type', st.ensure_literal_type, st.prevent_literal_type, t, len(occ), occ, bool(occ), 'literal_type[%s]' % t.__name__)
        # ---- node kinds ---------------------------------------------------------------------------------------------
        present = [k for k in kinds if k not in ('Module', 'Load', 'Store', 'Del', 'Constant') and not k.endswith(('Op',)) and kinds[k][0][0] is not None]
        rng.shuffle(present)
        for k in present[:6] + ['While', 'Lambda', 'Try', 'ClassDef']:
            occ = kinds.get(k, [])
            if occ and occ[0][0] is None:
                continue
            self.ensure_prevent('ast', st.ensure_ast, st.prevent_ast, k, len(occ), [p[0] for p in occ], bool(occ))
            self.disturb()
            found = parse_program(**_kw()).find_all(k)
            ctx.count('node_positions_compared')
            if positions(found) != sorted(occ, key=repr):
                ctx.violation('C08|find_all|nodes-differ|%s' % k, {'src': self.src[:3000], 'origin': self.origin, 'query': 'find_all', 'arg': k},
                              'oracle %s, returned %s' % (sorted(occ, key=repr)[:8], positions(found)[:8]))
        # ---- imports ------------------------------------------------------------------------------------------------
        mods = oracle_modules(tree)
        for m in sorted(mods)[:4] + ['never_imported_mod', 'os', 'math']:
            has = m in mods
            for which, fn, expect in (('ensure', st.ensure_import, not has), ('prevent', st.prevent_import, has)):
                self.disturb()
                case = {'src': self.src[:3000], 'origin': self.origin, 'query': which + '_import', 'arg': m}
                try:
                    fb = fn(m, **_kw())
                except Exception as e:
                    ctx.violation('C08|%s_import-raised|%s' % (which, type(e).__name__), case, traceback.format_exc()[-400:])
                    continue
                ctx.count('queries_checked')
                ctx.case(('Q:%s:%simport:%s' % (self.src[:1500], which, m)) if has else None)
                if bool(fb) != expect:
                    ctx.violation('C08|%s_import|%s' % (which, 'fires-wrongly' if bool(fb) else 'does-not-fire'), case,
                                  'module %s imported: %s (imports: %s)' % (m, has, sorted(mods)[:8]))
        if ctx.evaluations % 53 == 0:
            ctx.sample({'src': self.src[:400], 'origin': self.origin, 'operator_counts': {k.__name__: len(v) for k, v in ops.items()},
                        'call_counts': {k: len(v) for k, v in list(calls.items())[:6]}})


EXTRA_LINES = [
    'zz1 = a_name <= b_name <= c_name', 'zz2 = x1 >= y1', 'zz3 = p << 2 >> q', 'zz4 = (m @ n) if m else n', 'zz5 = not flag1 and flag2 or flag3',
    'zz6 = first is not None and second not in seen', 'zz7 = -5 + -2.5 - +3', 'zz8 = [True, False, 1, 1.0, 0, 0.0, "1", "", None]',
    'zz9 = f"total: {count + 1} items {name!r}"', 'zz10 = outer(inner(1), obj.method(2).other())', 'import os, json as js', 'import os.path',
    'from collections import defaultdict', 'from math import sqrt as root', 'zz11 = ~mask | bits ^ other & low', 'zz12 = 7 // 2 % 3 ** 2',
    'zz13 = {"k": [1, 2, {"n": 2}], "e": {}}', 'zz14 = value == 1 == True', 'zz15 = "abc" "def"', 'zz16 = 1 if 1 < 2 < 3 else 1',
    'zz17 = print(len(str(int("3"))))', 'while zz17 < 3:\n    zz17 += 1', 'zz18 = lambda q: q * 2', 'zz19 = [i for i in range(10) if i % 2 == 0]',
    'zz20 = 10 ** -2', 'zz21 = 2 - -2', 'del zz20', 'assert zz19 in [zz18], "m"', 'zz22 = 0x10 + 1e3 + 1_000',
]


def enrich(rng, src):
    if not src.endswith('\n'):
        src += '\n'
    for e in rng.sample(EXTRA_LINES, rng.randint(2, 8)):
        src += e + '\n'
    return src


def run(ctx):
    import os
    from gen.programs import gen_program
    from gen import corpus
    rng = ctx.rng
    repo = os.path.realpath(os.environ.get('VERIF_REPO', '/repo'))
    if ctx.shard == 0:
        Checker(ctx, SYMBOL_PROGRAM, 'symbol-table').run(rng, full_symbols=True)
        Checker(ctx, 'x = 1\n', 'tiny').run(rng, full_symbols=True)
    n = ctx.pick(14, 400)
    for i in range(n):
        if ctx.time_left() < 4:
            break
        p = gen_program(rng, static_only=(rng.random() < 0.6))
        src = enrich(rng, p.src)
        try:
            ast.parse(src)
        except SyntaxError:
            continue
        Checker(ctx, src, 'generated').run(rng, full_symbols=(i % 6 == 0))
    files = corpus.corpus_files(max_bytes=ctx.pick(6000, 25000), repo=repo)
    mine = files[ctx.shard::ctx.nshards]
    rng.shuffle(mine)
    for path in mine[:ctx.pick(3, 60)]:
        if ctx.time_left() < 4:
            break
        text = corpus.read(path)
        if text is None:
            continue
        try:
            ast.parse(text)
        except (SyntaxError, ValueError):
            continue
        ctx.count('corpus_files')
        Checker(ctx, text, 'corpus').run(rng)


def replay(ctx, case):
    import random
    rng = random.Random(0)
    Checker(ctx, case['src'], case.get('origin', 'replay')).run(rng, full_symbols=True)
