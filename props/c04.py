"""C04 - student-code failures are contained and reported, never raised into the grader."""
from props import sbx_common as sc

ID = 'C04'
LEVEL = 'exploration'
TECHNIQUE = 'termination-mode matrix under a boundary monitor: real run/call/evaluate/import vs plain CPython exec of the same file (exception class, student line), feedback accounting'
LEVEL_TEXT = ('Held on the executions observed: every termination mode (all builtin exception shapes, user exceptions with '
              'broken __str__/__repr__/__init__, SystemExit in every spelling, unbounded recursion, compile failures, blocked '
              'builtins/modules) x entry point (run, call, evaluate, student-file import, instructor code) x tracer style x '
              'threaded/direct x history position is executed for real; the monitor checks that the call returned, the recorded '
              'exception class equals the CPython reference, exactly one new runtime feedback names it, and its line is the '
              'reference student line. Plus failing random CS1 programs. Environments of a cell: the formatter of every platform, a report the '
              'grader keeps to herself (the default one holds another submission), a builtin allowed earlier and blocked again.')
LEVEL_NOTE = ('Reference = exec of the same files in the same interpreter. Blocked features have no CPython counterpart: only '
              'internal consistency is required there. os._exit, signals, memory exhaustion and non-Exception BaseException '
              'subclasses other than SystemExit are outside the statement. Compile-time SyntaxError locations are not judged '
              '(not raised on a student line).')
RULE = ('Cells = (termination mode, entry point, tracer, threaded, position in history). Quick: every (mode, entry) in the '
        'plain configuration plus an equal-sized random sample of the other configurations; thorough: the full matrix. '
        'Non-trivial/distinct = distinct cell.')
ASSUMPTIONS = ['plain exec() of the student file in the same interpreter is the reference for exception class and line']
SHARDS = {'quick': 16, 'thorough': 32}
BUDGET = {'quick': 60, 'thorough': 1200}
MIN_NONTRIVIAL = {'quick': 600, 'thorough': 5000}
REQUIRED_COUNTERS = {'quick': ['failing_terminations', 'lines_compared'], 'thorough': ['failing_terminations', 'lines_compared']}
EXHAUSTIVE = {'quick': False, 'thorough': True}


def run(ctx):
    sc.run(ctx, ID)


def replay(ctx, case):
    sc.replay(ctx, ID, case)
