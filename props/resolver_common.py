"""Shared workload for C01 (winner), C02 (correct flag), C03 (score): one
generated report, one real resolve, three projections of the reference model."""
import json
import traceback

RULES = {
    'C01': 'Random multisets of 0-8 feedbacks built through the real API (Feedback/explain/gently/compliment/'
           'give_partial/set_correct/guidance/system_error/log; category incl. unknown/mixed-case/None, priority incl. '
           'category names, aliases, highest/lowest, muted/unscored/activate/else_message/fields/kind) with 0-4 '
           'suppressions of the four forms, each also rebuilt in a shuffled creation order; resolved by the real '
           'simple.resolve and compared with a reference model written from the statement. Non-trivial: >=2 eligible '
           'feedbacks of different rank, or a muted/suppressed/compliment/untriggered feedback that would outrank '
           'the shown one. Distinct = distinct canonical spec+order.',
    'C02': 'Same generator; final.correct/success/to_json compared with all(bool(f.correct) for eligible f). Plus '
           'tool-produced scenarios (real syntax/runtime/TIFA/assert feedback mixed with set_correct/compliment/'
           'give_partial in every creation order). Non-trivial: at least one eligible feedback declaring correct=True '
           'or a success marker present AND at least one eligible feedback not declaring correct.',
    'C03': 'Same generator with scores (numbers, +N, N, N%, -N, -N% on a 0.01 grid; a probe class of tiny/huge '
           'floats); final.score compared with an exact Fraction recomputation from the statement. Non-trivial: >=2 '
           'scored, unsuppressed feedbacks in a non-default result.',
}


def site_of(exc):
    tb = traceback.extract_tb(exc.__traceback__)
    for fr in reversed(tb):
        if '/pedal/' in fr.filename:
            return '%s:%s' % (fr.filename.split('/pedal/')[-1], fr.name)
    return 'outside-pedal'


def canonical(case):
    return json.dumps(case, sort_keys=True, default=repr)


def apply_step(step, report, objs, requested):
    from pedal.core import commands
    from pedal.resolvers import full
    kind = step[0]
    if kind == 'suppress':
        kw = {k: (dict(v) if isinstance(v, dict) else v) for k, v in step[1].items()}
        commands.suppress(report=report, **kw)
        requested.append(dict(step[1]))
    elif kind in ('muted', 'priority', 'category', 'score', 'unscored') and objs:
        setattr(objs[step[1] % len(objs)], kind, step[2])
    elif kind == 'resolve-full-first':
        full.resolve(report)
    # 'nothing-at-all': just resolve again


def gen_steps(rng, spec):
    from gen import reports
    steps = []
    for _ in range(rng.choice([1, 1, 2, 3])):
        r = rng.random()
        k = len(spec['feedbacks'])
        if r < 0.2:
            steps.append(['nothing-at-all'])
        elif r < 0.3:
            steps.append(['resolve-full-first'])
        elif r < 0.5 and k:
            steps.append(['muted', rng.randrange(k), rng.choice([True, False])])
        elif r < 0.65 and k:
            steps.append(['priority', rng.randrange(k), rng.choice(['highest', 'lowest', 'high', 'low', 'syntax', 'positive', None])])
        elif r < 0.72 and k:
            steps.append(['category', rng.randrange(k), rng.choice(['syntax', 'runtime', 'student', 'positive', 'instructor'])])
        elif r < 0.8 and k:
            steps.append(['score', rng.randrange(k), rng.choice(reports.SCORES_GRID)])
        else:
            sups = reports.gen_suppressions(rng, spec['feedbacks'])
            if sups:
                steps.append(['suppress', sups[0]])
            else:
                steps.append(['nothing-at-all'])
    return steps


def run_case(ctx, which, case):
    from gen import reports
    from oracles import resolver_model as model
    from pedal.resolvers import simple, full
    spec, order = case['spec'], case.get('order')
    more = None
    try:
        if case.get('split') is not None:
            report, objs, more = reports.build(spec, order, first=case['split'])
        else:
            report, objs = reports.build(spec, order)
    except Exception as ex:
        # constructing feedback is C20's business
        ctx.count('construction_raised')
        ctx.seen('construction_errors', '%s@%s' % (type(ex).__name__, site_of(ex)))
        return
    requested = [dict(s_) for s_ in spec['suppressions']]
    # what the instructor asked for explicitly is what the object says (the model reads the objects)
    idxs = list(range(len(spec['feedbacks']))) if order is None else order
    for obj, i in zip(objs, idxs):
        asked = spec['feedbacks'][i]['kw']
        for attr in ({'C01': ('kind', 'muted'), 'C02': ('muted',), 'C03': ('valence', 'unscored', 'muted')}[which]):
            if asked.get(attr) is not None and hasattr(obj, attr):
                got = getattr(obj, attr)
                if got != asked[attr] or type(got) is not type(asked[attr]):
                    ctx.violation('%s|attribute-given-is-not-the-attribute-used|%s|%s' % (which, attr, spec['feedbacks'][i]['cls']), case,
                                  '%s(..., %s=%r) has %s == %r' % (spec['feedbacks'][i]['cls'], attr, asked[attr], attr, got))
    try:
        final = simple.resolve(report)
        if more is not None:
            # history: resolve, add more feedback to the same report, resolve again
            more()
            ctx.count('re_resolves_after_more_feedback')
            final = simple.resolve(report)
        for step in case.get('then', []):
            # history: the same report is resolved again, possibly after the instructor changed something in between
            apply_step(step, report, objs, requested)
            ctx.count('re_resolves_after_%s' % step[0])
            final = simple.resolve(report)
    except Exception as ex:
        if which == 'C01':
            ctx.case(canonical(case))
            ctx.violation('C01|resolve-raises|%s|%s' % (type(ex).__name__, site_of(ex)), case,
                          traceback.format_exc()[-1200:])
        else:
            ctx.count('resolve_raised_(C01 territory)')
        return
    ctx.count('resolves_checked')
    try:
        problems, e = model.check(report, final, which=(which,), requested=requested)
    except model.Unmodelled as u:
        ctx.count('unmodelled')
        ctx.seen('unmodelled_reasons', str(u)[:60])
        ctx.case()
        return
    # ---- non-triviality ---------------------------------------------------
    nt = None
    if which == 'C01':
        ranks = {e.ranks[id(f)] for f in e.eligible}
        blocked = False
        wr = e.ranks[id(e.winner)] if e.winner is not None else (99, 9)
        for fb in report.feedback:
            st = e.status[id(fb)]
            if st != 'eligible':
                try:
                    if model.rank(fb) <= wr:
                        blocked = True
                        ctx.seen('ineligible_kinds_outranking_winner', st)
                except model.Unmodelled:
                    pass
        if len(ranks) >= 2 or blocked:
            nt = canonical(case)
        ctx.seen('winner_rank', str(wr))
        if e.winner is None:
            ctx.count('default_result_expected')
    elif which == 'C02':
        pos = any(bool(f.correct) for f in e.eligible) or any(
            type(f).__name__ in ('set_correct', 'compliment', 'give_partial') for f in report.feedback)
        neg = any(not bool(f.correct) for f in e.eligible)
        if pos and neg:
            nt = canonical(case)
        ctx.count('expected_correct_%s' % e.correct)
    elif which == 'C03':
        if len(e.contrib) >= 2 and not e.default_all_correct:
            nt = canonical(case)
        for fb, v, aw in e.contrib:
            ctx.seen('score_rows', model.score_feature(fb))
        if e.score_unmodelled:
            ctx.count('score_form_outside_statement')
    ctx.case(nt)
    for prop, key, detail in problems:
        if prop == which:
            ctx.violation(key, case, detail)
    if which == 'C01':
        # full resolver: nothing suppressed or muted-while-triggered may be "used"
        try:
            report2, objs2 = reports.build(spec, order)
            final2 = full.resolve(report2)
            e2 = model.expected(report2, [dict(s_) for s_ in spec['suppressions']])
            ctx.count('full_resolves_checked')
            for fb in final2.used:
                st = e2.status.get(id(fb), '?')
                if st.startswith('suppressed') or (st == 'muted'):
                    ctx.violation('C01|full-resolver-used|' + st.split(':')[0], case,
                                  'full.resolve(...).used contains %r with status %s' % (fb.label, st))
        except model.Unmodelled:
            pass
        except Exception as ex:
            ctx.violation('C01|full-resolve-raises|%s|%s' % (type(ex).__name__, site_of(ex)), case,
                          traceback.format_exc()[-1200:])
    if which == 'C01' and ctx.evaluations % 3 == 0:
        check_sectional(ctx, case, spec, order)
    if which == 'C02' and not case.get('then') and case.get('split') is None and ctx.evaluations % 2 == 0:
        # what the platforms' own resolvers hand back (and leave in report.result) says 'correct' by the same rule
        import contextlib, io
        from pedal.environments import gradescope as _gs
        for env_name, env_resolve in (('gradescope', _gs.resolve), ('gradescope-single', _gs.single_resolve), ('full', full.resolve)):
            try:
                report2, objs2 = reports.build(spec, order)
                with contextlib.redirect_stdout(io.StringIO()):
                    final2 = env_resolve(report2)
                if final2 is None:
                    final2 = report2.result
                problems2, e2 = model.check(report2, final2, which=('C02',), requested=[dict(s_) for s_ in spec['suppressions']])
                ctx.count('platform_resolvers_checked')
                for prop, key, detail in problems2:
                    if prop == 'C02':
                        ctx.violation(key.replace('C02|', 'C02|%s-resolver|' % env_name, 1), case, detail)
            except model.Unmodelled:
                pass
            except Exception as ex:
                ctx.count('platform_resolve_raised_(C01 territory)')
                ctx.seen('platform_resolve_errors', '%s:%s@%s' % (env_name, type(ex).__name__, site_of(ex)))
    if which == 'C03' and not case.get('then') and case.get('split') is None:
        # the resolver that reports every feedback (GradeScope's): the score is the same sum
        try:
            report2, objs2 = reports.build(spec, order)
            final2 = full.resolve(report2)
            problems2, e2 = model.check(report2, final2, which=('C03',), requested=[dict(s_) for s_ in spec['suppressions']])
            ctx.count('full_resolver_scores_checked')
            for prop, key, detail in problems2:
                if prop == 'C03':
                    ctx.violation(key.replace('C03|', 'C03|full-resolver|', 1), case, detail)
        except model.Unmodelled:
            pass
        except Exception as ex:
            ctx.count('full_resolve_raised_(C01 territory)')
    if ctx.evaluations % 97 == 0:
        ctx.sample({'spec': spec, 'order': order, 'shown': [final.title, final.message, final.label],
                    'correct': final.correct, 'score': final.score})


def check_sectional(ctx, case, spec, order):
    """The resolver that platforms with sectioned assignments use (VPL, GradeScope): one result per section, chosen by the same
    rules among that section's feedback. The feedback of the sections arrives interleaved (whatever is reported before the file is
    split, or by a check that looks back at an earlier part, belongs to its own group)."""
    import types
    from gen import reports
    from oracles import resolver_model as model
    from pedal.resolvers import sectional
    try:
        report, objs = reports.build(spec, order)
    except Exception:
        return
    groups = [None, 'section-one', 'section-two']
    n = len(report.feedback)
    if n < 2:
        return
    pattern = [(i * 7 + len(spec['suppressions'])) % 3 if i % 4 else 1 for i in range(n)]      # e.g. 1 1 2 0 1 2 0 1 1 ...: runs are short, groups come back
    for fb, g in zip(report.feedback, pattern):
        fb.parent = groups[g]
    requested = [dict(s_) for s_ in spec['suppressions']]
    try:
        finals = sectional.resolve(report)
    except Exception as ex:
        ctx.violation('C01|sectional-resolve-raises|%s|%s' % (type(ex).__name__, site_of(ex)), case, traceback.format_exc()[-800:])
        return
    ctx.count('sectional_resolves_checked')
    for gi, g in enumerate(groups):
        mine = [fb for fb, p in zip(report.feedback, pattern) if p == gi]
        if not mine:
            continue
        if g not in finals:
            ctx.violation('C01|sectional|section-without-a-result', case, 'no result for %r' % (g,))
            continue
        view = types.SimpleNamespace(feedback=mine, ignored_feedback=[], suppressions=report.suppressions, suppressed_labels=report.suppressed_labels)
        try:
            problems, e = model.check(view, finals[g], which=('C01',), requested=requested)
        except model.Unmodelled:
            continue
        ctx.count('sections_checked')
        for prop, key, detail in problems:
            ctx.violation(key.replace('C01|', 'C01|sectional|', 1), dict(case, section=g, sections=pattern), detail)


def run_generated(ctx, which, n):
    from gen import reports
    rng = ctx.rng
    done = 0
    while done < n and ctx.time_left() > 0:
        spec = reports.gen_spec(rng, score_probe=(which == 'C03'))
        run_case(ctx, which, {'spec': spec, 'order': None})
        done += 1
        k = len(spec['feedbacks'])
        if k >= 2:
            order = list(range(k))
            rng.shuffle(order)
            run_case(ctx, which, {'spec': spec, 'order': order})
            done += 1
            if rng.random() < 0.3:
                run_case(ctx, which, {'spec': spec, 'order': order, 'split': rng.randrange(0, k)})
                done += 1
        if rng.random() < 0.35:
            run_case(ctx, which, {'spec': spec, 'order': None, 'then': gen_steps(rng, spec)})
            done += 1
        scored = [f for f in spec['feedbacks'] if f['kw'].get('score') is not None]
        if which == 'C03' and scored and rng.random() < 0.25:
            # the same feedback given several times (a check inside a loop over test cases): every one of them carries its score
            spec3 = dict(spec)
            spec3['feedbacks'] = list(spec['feedbacks']) + [dict(rng.choice(scored)) for _ in range(rng.randint(1, 3))]
            run_case(ctx, which, {'spec': spec3, 'order': None})
            ctx.count('cases_with_a_repeated_feedback')
            done += 1
        if rng.random() < 0.2:
            spec2 = dict(spec)
            spec2['pre_use'] = reports.gen_suppressions(rng, spec['feedbacks']) + [{'label': f['kw']['label']} for f in spec['feedbacks'][:2] if f['kw'].get('label')]
            run_case(ctx, which, {'spec': spec2, 'order': None})
            done += 1
    ctx.count('generated_cases', done)


def run(ctx, which):
    n = ctx.pick(400, 12000)
    if ctx.shard == 0:
        run_repo_tests(ctx, which)
        return
    if ctx.shard in (1, 2, 3, 4):
        run_special(ctx, which)
    run_generated(ctx, which, n)


def replay(ctx, which, case):
    if case.get('kind') == 'scenario':
        run_scenario(ctx, which, case)
    else:
        run_case(ctx, which, case)


def run_repo_tests(ctx, which):
    from vlib.repotests import run_under_monitors
    run_under_monitors(ctx, ['resolver_mon'])


UNIT_STUDENT = "def add(a, b):\n    if a > 4:\n        return 0\n    return a + b\nx = 9\ny = 1\np = 1\nq = 2\n"
UNIT_CASES = {'T': ((1, 2), 3), 'F': ((9, 1), 10), 'ST': ("p, q", 3), 'SF': ("x, y", 10), 'T2': ((2, 2), 4), 'F2': ((5, 5), 10)}


def run_special(ctx, which):
    """Scenarios built with real tools (sandbox, unit_test, verify, TIFA, assertions) instead of hand-made Feedback objects."""
    rng = ctx.rng
    if which == 'C01':
        # every rank against every rank, in both creation orders: two plain feedbacks that differ only in where the documented order
        # puts them (a category of the table, no category at all, a category outside the table; a priority that re-ranks or shifts)
        cats = ['syntax', 'mistakes', 'instructor', 'algorithmic', 'runtime', 'student', 'specification', 'positive', 'instructions',
                'uncategorized', None, 'custom_cat', 'style']
        ranks = [(c, None) for c in cats] + [(c, p) for c in (None, 'custom_cat', 'runtime') for p in ('highest', 'lowest', 'high', 'low', 'syntax')]
        pairs = [(a, b) for a in ranks for b in ranks]
        mine = pairs[(ctx.shard - 1)::4]
        for (ca, pa), (cb, pb) in mine:
            fbs = []
            for label, c, p_ in (('alpha', ca, pa), ('Beta', cb, pb)):
                kw = {'label': label, 'message': 'msg-' + label}
                if c is not None:
                    kw['category'] = c
                if p_ is not None:
                    kw['priority'] = p_
                fbs.append({'cls': 'Feedback', 'kw': kw})
            run_case(ctx, which, {'spec': {'feedbacks': fbs, 'suppressions': [], 'sup_first': False, 'main_report': False}, 'order': None})
            ctx.count('rank_pairs_checked')
    if which == 'C03':
        for _ in range(ctx.pick(150, 3000)):
            n = rng.choice([1, 2, 4, 5, 10])
            names = [rng.choice(list(UNIT_CASES)) for _ in range(n)]
            total = rng.choice([50, 100, 20, 40])
            mode = rng.choice(['total-partial', 'total-partial', 'list', 'single', 'total-all-or-nothing', 'total-partial-numeric'])
            run_scenario(ctx, which, {'kind': 'scenario', 'scenario': 'unit_test', 'cases': names, 'total': total, 'mode': mode})
    if which == 'C02':
        import itertools
        pieces = ['syntax-error', 'runtime-error', 'tifa-issue', 'failed-assert', 'explain', 'set_correct', 'compliment', 'give_partial',
                  'muted-negative', 'suppressed-negative', 'passing-assert']
        for _ in range(ctx.pick(60, 1500)):
            k = rng.randint(2, 4)
            chosen = rng.sample(pieces, k)
            orders = list(itertools.permutations(range(k)))
            rng.shuffle(orders)
            for order in orders[:ctx.pick(3, 24)]:
                run_scenario(ctx, which, {'kind': 'scenario', 'scenario': 'tools', 'pieces': [chosen[i] for i in order]})


def run_scenario(ctx, which, case):
    from pedal.core.commands import clear_report, contextualize_report
    from pedal.resolvers import simple
    from oracles import resolver_model as model
    if case['scenario'] == 'unit_test':
        from pedal.sandbox.commands import run
        from pedal.assertions.commands import unit_test
        clear_report()
        contextualize_report(UNIT_STUDENT)
        run()
        cases = [UNIT_CASES[n] for n in case['cases']]
        n = len(cases)
        passes = sum(1 for c in case['cases'] if c in ('T', 'ST', 'T2'))
        total = case['total']
        mode = case['mode']
        try:
            if mode == 'total-partial':
                ret = unit_test('add', *cases, score='+%d%%' % total, partial_credit=True)
                want = None if passes == n else round(passes * (total / 100.0) / n, 2)
                # pedal documents careless rounding of the per-case share to whole percents: only exact shares are judged
                if (total * 100) % n != 0 or total % n != 0:
                    want = None
            elif mode == 'total-partial-numeric':
                ret = unit_test('add', *cases, score=total / 100.0, partial_credit=True)
                want = None if passes == n else round(passes * (total / 100.0) / n, 2)
                if round(passes * (total / 100.0) / n, 4) != round(passes * (total / 100.0) / n, 2):
                    want = None     # a share with more than two decimals: rounding order is not specified
            elif mode == 'list':
                ret = unit_test('add', *cases, partial_credit=['+%d%%' % (total // 10)] * n)
                want = None if passes == n else round(passes * (total // 10) / 100.0, 2)
            elif mode == 'single':
                ret = unit_test('add', *cases, partial_credit='+%d%%' % (total // 10))
                want = None if passes == n else round(passes * (total // 10) / 100.0, 2)
            else:
                ret = unit_test('add', *cases, score='+%d%%' % total, partial_credit=False)
                want = None if passes == n else 0
            final = simple.resolve()
        except Exception as ex:
            ctx.violation('C03|unit_test-scenario-raised|%s|%s' % (type(ex).__name__, site_of(ex)), case, traceback.format_exc()[-600:])
            return
        ctx.count('resolves_checked')
        ctx.count('unit_test_scenarios')
        shape = 'with-string-argument-cases' if any(c.startswith('S') for c in case['cases']) else 'tuple-cases-only'
        ctx.seen('unit_test_shapes', mode + '/' + shape)
        ctx.case(canonical(case) if 0 < passes < n else None)
        if bool(ret) != (passes == n):
            ctx.violation('C03|unit_test-return|%s' % shape, case, 'returned %r with %d of %d passing' % (ret, passes, n))
        if want is not None and abs(final.score - want) > 1e-9:
            ctx.violation('C03|unit_test-partial-credit|%s|%s' % (mode, shape), case,
                          '%d of %d cases pass, total %d%%: expected score %s, final.score %r' % (passes, n, total, want, final.score))
        # the generic table must also hold on this real report
        try:
            problems, e = model.check(MAIN_REPORT_of(), final, which=(which,))
            for prop, key, detail in problems:
                if prop == which:
                    ctx.violation(key + '|unit_test-scenario', case, detail)
        except model.Unmodelled:
            ctx.count('unmodelled')
        return
    if case['scenario'] == 'tools':
        from pedal.core import commands as cmd
        from pedal.source import verify
        from pedal.sandbox import commands as sbx
        from pedal.tifa import tifa_analysis
        from pedal.assertions.runtime import assert_equal
        pieces = case['pieces']
        src = "def add(a, b):\n    return a + b\nvalue = add(1, 2)\nprint(value)\n"
        if 'syntax-error' in pieces:
            src = "def add(a, b)\n    return a + b\n"
        elif 'runtime-error' in pieces:
            src = "def add(a, b):\n    return a + b\nvalue = add(1, 2)\nprint(value)\nitems = [1]\nprint(items[3])\n"
        elif 'tifa-issue' in pieces:
            src = "def add(a, b):\n    return a + b\nvalue = add(1, 2)\nprint(value)\nprint(never_defined)\n"
        clear_report()
        contextualize_report(src)
        ran = False
        live_negative = False
        try:
            for piece in pieces:
                if piece == 'syntax-error':
                    verify()
                    live_negative = True
                elif piece == 'runtime-error':
                    sbx.run()
                    ran = True
                    live_negative = True
                elif piece == 'tifa-issue':
                    tifa_analysis()
                    live_negative = True
                elif piece == 'failed-assert':
                    assert_equal(1, 2)
                    live_negative = True
                elif piece == 'passing-assert':
                    assert_equal(3, 3)
                elif piece == 'explain':
                    cmd.explain('You made a mistake', label='mistake_here')
                    live_negative = True
                elif piece == 'set_correct':
                    cmd.set_correct()
                elif piece == 'compliment':
                    cmd.compliment('Nice naming')
                elif piece == 'give_partial':
                    cmd.give_partial(0.25)
                elif piece == 'muted-negative':
                    cmd.explain('hidden', label='hidden_one', muted=True)
                elif piece == 'suppressed-negative':
                    cmd.suppress('instructor', 'suppressed_one')
                    cmd.explain('suppressed', label='suppressed_one')
            final = simple.resolve()
        except Exception as ex:
            ctx.violation('C02|tool-scenario-raised|%s|%s' % (type(ex).__name__, site_of(ex)), case, traceback.format_exc()[-600:])
            return
        ctx.count('resolves_checked')
        ctx.count('tool_scenarios')
        for pc in pieces:
            ctx.seen('tool_pieces', pc)
        nt = canonical(case) if live_negative and any(p in pieces for p in ('set_correct', 'compliment', 'give_partial')) else None
        ctx.case(nt)
        # the "in particular" clause: a live syntax/runtime/algorithmic/instructor/specification feedback => never correct
        if live_negative and (final.correct or final.success or final.to_json().get('correct')):
            kinds = '+'.join(sorted(p for p in pieces if p in ('syntax-error', 'runtime-error', 'tifa-issue', 'failed-assert', 'explain')))
            ctx.violation('C02|reported-correct-with-live-negative|%s' % kinds, case,
                          'correct=%r success=%r although %s fired (order: %s)' % (final.correct, final.success, kinds, pieces))
        try:
            problems, e = model.check(MAIN_REPORT_of(), final, which=(which,))
            for prop, key, detail in problems:
                if prop == which:
                    ctx.violation(key + '|tool-scenario', case, detail)
        except model.Unmodelled:
            ctx.count('unmodelled')
        return


def MAIN_REPORT_of():
    from pedal.core.report import MAIN_REPORT
    return MAIN_REPORT
