"""Shared workload for C01 (winner), C02 (correct flag), C03 (score): one
generated report, one real resolve, three projections of the reference model."""
import json
import traceback

RULES = {
    'C01': 'Random multisets of 0-8 feedbacks built through the real API (Feedback/explain/gently/compliment/'
           'give_partial/set_correct/guidance/system_error/log; category incl. unknown/mixed-case/None, priority incl. '
           'category names, aliases, highest/lowest, muted/unscored/activate/else_message/fields/kind) with 0-4 '
           'suppressions of the four forms, each also rebuilt in a shuffled creation order; resolved by the real '
           'simple.resolve and compared with a reference model written from the statement. Non-trivial: >=2 eligible '
           'feedbacks of different rank, or a muted/suppressed/compliment/untriggered feedback that would outrank '
           'the shown one. Distinct = distinct canonical spec+order.',
    'C02': 'Same generator; final.correct/success/to_json compared with all(bool(f.correct) for eligible f). Plus '
           'tool-produced scenarios (real syntax/runtime/TIFA/assert feedback mixed with set_correct/compliment/'
           'give_partial in every creation order). Non-trivial: at least one eligible feedback declaring correct=True '
           'or a success marker present AND at least one eligible feedback not declaring correct.',
    'C03': 'Same generator with scores (numbers, +N, N, N%, -N, -N% on a 0.01 grid; a probe class of tiny/huge '
           'floats); final.score compared with an exact Fraction recomputation from the statement. Non-trivial: >=2 '
           'scored, unsuppressed feedbacks in a non-default result.',
}


def site_of(exc):
    tb = traceback.extract_tb(exc.__traceback__)
    for fr in reversed(tb):
        if '/pedal/' in fr.filename:
            return '%s:%s' % (fr.filename.split('/pedal/')[-1], fr.name)
    return 'outside-pedal'


def canonical(case):
    return json.dumps(case, sort_keys=True, default=repr)


def run_case(ctx, which, case):
    from gen import reports
    from oracles import resolver_model as model
    from pedal.resolvers import simple, full
    spec, order = case['spec'], case.get('order')
    more = None
    try:
        if case.get('split') is not None:
            report, objs, more = reports.build(spec, order, first=case['split'])
        else:
            report, objs = reports.build(spec, order)
    except Exception as ex:
        # constructing feedback is C20's business
        ctx.count('construction_raised')
        ctx.seen('construction_errors', '%s@%s' % (type(ex).__name__, site_of(ex)))
        return
    try:
        final = simple.resolve(report)
        if more is not None:
            # history: resolve, add more feedback to the same report, resolve again
            more()
            ctx.count('re_resolves_after_more_feedback')
            final = simple.resolve(report)
    except Exception as ex:
        if which == 'C01':
            ctx.case(canonical(case))
            ctx.violation('C01|resolve-raises|%s|%s' % (type(ex).__name__, site_of(ex)), case,
                          traceback.format_exc()[-1200:])
        else:
            ctx.count('resolve_raised_(C01 territory)')
        return
    ctx.count('resolves_checked')
    try:
        problems, e = model.check(report, final, which=(which,))
    except model.Unmodelled as u:
        ctx.count('unmodelled')
        ctx.seen('unmodelled_reasons', str(u)[:60])
        ctx.case()
        return
    # ---- non-triviality ---------------------------------------------------
    nt = None
    if which == 'C01':
        ranks = {e.ranks[id(f)] for f in e.eligible}
        blocked = False
        wr = e.ranks[id(e.winner)] if e.winner is not None else (99, 9)
        for fb in report.feedback:
            st = e.status[id(fb)]
            if st != 'eligible':
                try:
                    if model.rank(fb) <= wr:
                        blocked = True
                        ctx.seen('ineligible_kinds_outranking_winner', st)
                except model.Unmodelled:
                    pass
        if len(ranks) >= 2 or blocked:
            nt = canonical(case)
        ctx.seen('winner_rank', str(wr))
        if e.winner is None:
            ctx.count('default_result_expected')
    elif which == 'C02':
        pos = any(bool(f.correct) for f in e.eligible) or any(
            type(f).__name__ in ('set_correct', 'compliment', 'give_partial') for f in report.feedback)
        neg = any(not bool(f.correct) for f in e.eligible)
        if pos and neg:
            nt = canonical(case)
        ctx.count('expected_correct_%s' % e.correct)
    elif which == 'C03':
        if len(e.contrib) >= 2 and not e.default_all_correct:
            nt = canonical(case)
        for fb, v, aw in e.contrib:
            ctx.seen('score_rows', model.score_feature(fb))
        if e.score_unmodelled:
            ctx.count('score_form_outside_statement')
    ctx.case(nt)
    for prop, key, detail in problems:
        if prop == which:
            ctx.violation(key, case, detail)
    if which == 'C01':
        # full resolver: nothing suppressed or muted-while-triggered may be "used"
        try:
            report2, objs2 = reports.build(spec, order)
            final2 = full.resolve(report2)
            e2 = model.expected(report2)
            ctx.count('full_resolves_checked')
            for fb in final2.used:
                st = e2.status.get(id(fb), '?')
                if st.startswith('suppressed') or (st == 'muted'):
                    ctx.violation('C01|full-resolver-used|' + st.split(':')[0], case,
                                  'full.resolve(...).used contains %r with status %s' % (fb.label, st))
        except model.Unmodelled:
            pass
        except Exception as ex:
            ctx.violation('C01|full-resolve-raises|%s|%s' % (type(ex).__name__, site_of(ex)), case,
                          traceback.format_exc()[-1200:])
    if ctx.evaluations % 97 == 0:
        ctx.sample({'spec': spec, 'order': order, 'shown': [final.title, final.message, final.label],
                    'correct': final.correct, 'score': final.score})


def run_generated(ctx, which, n):
    from gen import reports
    rng = ctx.rng
    done = 0
    while done < n and ctx.time_left() > 0:
        spec = reports.gen_spec(rng, score_probe=(which == 'C03'))
        run_case(ctx, which, {'spec': spec, 'order': None})
        done += 1
        k = len(spec['feedbacks'])
        if k >= 2:
            order = list(range(k))
            rng.shuffle(order)
            run_case(ctx, which, {'spec': spec, 'order': order})
            done += 1
            if rng.random() < 0.3:
                run_case(ctx, which, {'spec': spec, 'order': order, 'split': rng.randrange(0, k)})
                done += 1
    ctx.count('generated_cases', done)


def run(ctx, which):
    n = ctx.pick(400, 12000)
    if ctx.shard == 0:
        run_repo_tests(ctx, which)
        return
    if ctx.shard == 1:
        run_special(ctx, which)
    run_generated(ctx, which, n)


def replay(ctx, which, case):
    if case.get('kind') == 'scenario':
        run_scenario(ctx, which, case)
    else:
        run_case(ctx, which, case)


def run_repo_tests(ctx, which):
    from vlib.repotests import run_under_monitors
    run_under_monitors(ctx, ['resolver_mon'])


def run_special(ctx, which):
    pass


def run_scenario(ctx, which, case):
    pass
