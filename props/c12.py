"""C12 - verify() reports a syntax error exactly when CPython's parser rejects the source."""
import ast
import re
import traceback

ID = 'C12'
LEVEL = 'exploration'
TECHNIQUE = 'differential oracle: CPython ast.parse vs pedal verify()/set_source() on valid, edited and hostile texts'
LEVEL_TEXT = ('Held on the texts observed: every text is parsed by CPython (accept / SyntaxError class + lineno) and by '
              'pedal; never-raises, feedback-iff-rejected, reported line, blank handling and the stored tree are '
              'compared. Exploration over generated programs, stdlib/pedal corpus files, 1-3 character/line edits of '
              'them and a hostile text list; not a proof over all strings. Dimensions: 15 ways of offering the text (sections, substitutions '
              'and restores while a section is current, other file names, earlier failures) x the formatter of every platform.')
LEVEL_NOTE = ('Oracle = the same CPython parser pedal calls. For texts on which the parser itself gives up without a SyntaxError '
              '(its stack is exhausted: RecursionError/MemoryError; a lone surrogate cannot be encoded) there is no line to compare: '
              'verify() must still return, return False and attach a syntax feedback.')
RULE = ('Texts: generated CS1 programs and corpus files (accepted class), 1-3 edits of them from a weighted alphabet '
        '(quotes, brackets, tabs, form feed, NUL, CR, BOM, non-ASCII), and a fixed hostile list (empty, whitespace-only, '
        'NUL anywhere, CR-only line ends, unterminated strings/brackets, mixed tabs). Through contextualize_report+'
        'verify(), set_source() and a private Report. Non-trivial: a rejected text (distinct text), or an accepted '
        'text that was produced by an edit or is a real corpus file.')
ASSUMPTIONS = ['ast.parse(text, "answer.py") of the running interpreter is the reference parser',
               'nesting/length beyond the parser resource limits and lone surrogates are outside the quantifier']
SHARDS = {'quick': 16, 'thorough': 48}
BUDGET = {'quick': 40, 'thorough': 900}
MIN_NONTRIVIAL = {'quick': 1000, 'thorough': 50000}

HOSTILE = [
    "x '''abc\ndef'''\n", "values = (1\n 2)\n", "y = 1\nx = [1,\n     2\n     3]\n", "print('a'\n      'b' 'c'\n      d e)\n", "f(a,\n  b c,\n  d)\n", 'x = """abc\ndef\n',
    "def f():\n    return (1,\n            2 3)\n", "x\ry(", "a = 1\rb = (\r",
    "y = 1\rx = [1,\r     2\r     3]\r", "print('a'\r      'b' 'c'\r      d e)\r", "f(a,\r  b c,\r  d)\r", "y = 1\r\nx = [1,\r\n     2\r\n     3]\r\n", "v = (1\r 2)",
    "x = '\ud800'\n", "\ud800 = 1\n", "# comment \udfff\nx = 1\n", "print('a')\nname_\udc80 = 2\n", "-" * 100000 + "1", "x = " + "not " * 60000 + "True\n",
    "y = 1\nx = " + "~" * 90000 + "1\n", "(" * 5000 + "1" + ")" * 5000, "[" * 3000 + "]" * 3000, "x = " + "1 + " * 100000 + "1\n", "a" + ".b" * 100000 + "\n",
    "x = " + "f(" * 2000 + ")" * 2000 + "\n", "if x:\n" * 150 + "pass\n",
    '', ' ', '\n', '\n\n\n', '\t', '   \n  \n', '\x0c', '\x0c\n', '\r', '\r\n', '\r\n\r\n', '\xa0', ' ', '﻿',
    '﻿x = 1\n', 'x = 1\r\ny = 2\r\n', 'x = 1\ry = 2\r', 'x = 1\ry = = 2', 'if x:\rprint(x)\r',
    'x = 1\x00', '\x00', 'x\x00 = 1\ny = 2\n', 'a = 1\nb = "\x00"\n', '# c\x00\n', 'x = 1\n\x00', 'x = (1,\x00',
    'print("hi"', 'print("hi', "x = 'abc", 'x = """abc', 'x = [1, 2', 'x = {1: 2', 'x = (', ')', ']', '}', 'x = )',
    'def f(:\n    pass\n', 'def f()\n    pass\n', 'if True\n    x = 1\n', 'if True:\nx = 1\n', '  x = 1\n',
    'if True:\n    x = 1\n  y = 2\n', 'if True:\n\tx = 1\n        y = 2\n', 'if True:\n        x = 1\n\ty = 2\n',
    'for i in range(3):\n', 'while True:', 'class A:', 'try:\n    pass\n', 'else:\n    pass\n', 'return 5\n',
    'x = 1 +\n', 'x = = 1\n', 'x == 1 = 2\n', '1 = x\n', 'f() = 1\n', 'x = 1 2\n', 'print "hello"\n', 'exec "x"\n',
    'x = 0777\n', 'x = 1__0\n', 'x = 0b12\n', 'x = 1e\n', 'x = 1.2.3\n', "x = 'a' 'b'\n", 'x = f"{1+}"\n', 'x = f"{"\n',
    'x = "\\N{BAD}"\n', "x = b'é'\n", 'def f(a, a): pass\n', 'def f(a=1, b): pass\n', 'lambda: (yield)\n',
    'break\n', 'continue\n', 'yield 1\n', 'await x\n', 'nonlocal x\n', 'global x\nx = 1\n', 'x = 1\nglobal x\n',
    'import\n', 'from x import\n', 'from . import *\n', 'from x import (a, b\n', 'import a.b as\n',
    'λ = 1\nprint(λ)\n', '名前 = "x"\n', 'x = “hello”\n', 'x = 1 – 2\n', 'x\xa0= 1\n', 'é = 1\n', 'x = 1 # é\n', '€ = 5\n',
    'a = 1;\n', ';\n', 'a = 1;; b = 2\n', 'pass\\', 'x = 1 \\\n', 'x = 1 \\ \n+ 2\n', '\\\n', 'x = \\\n1\n',
    '@decorator\n', '@\ndef f(): pass\n', 'match x:\n    case 1:\n        pass\n', 'match x:\n    case\n',
    'x: int = \n', 'x := 1\n', '(x := 1)\n', 'print(x := 1, y := 2)\n', 'del\n', 'assert\n', 'raise from x\n',
    'with open("f") as f, open("g") as :\n    pass\n', 'async def f():\n    await g()\n', 'async x\n',
    'def f():\n    """doc\n', 'x = 1\n\n\n\n\n\n   y = 2\n', '\n\n\n   \nx = (\n\n\n', 'if 1:\n    if 2:\n        x=1\n      y=2\n',
    'class A:\n    def f(self):\n        return 1\n   def g(self):\n        pass\n', 'x = [\n1,\n2,\n3\n', '"""\n',
    "'''\nabc\n", 'x = 1\n' * 50 + 'y = (\n', 'print(1))\n', 'print((1)\n', 'x = {1, 2]\n', 'x = [1, 2)\n',
    '\tx = 1\n', ' \tx = 1\n', 'if x:\n \tpass\n\t pass\n', 'def f():\n\treturn 1\n    return 2\n',
]


def site_of(exc):
    tb = traceback.extract_tb(exc.__traceback__)
    for fr in reversed(tb):
        if '/pedal/' in fr.filename:
            return '%s:%s' % (fr.filename.split('/pedal/')[-1], fr.name)
    return 'outside-pedal'


def reference(text):
    """-> ('accept', tree) | ('reject', exc) | ('skip', reason)"""
    try:
        return 'accept', ast.parse(text, 'answer.py')
    except SyntaxError as e:
        return 'reject', e
    except (RecursionError, MemoryError) as e:
        return 'giveup', e          # the parser's own stack is exhausted: no tree, and no SyntaxError object either
    except (UnicodeEncodeError, UnicodeDecodeError) as e:
        return 'giveup', e          # a lone surrogate cannot be encoded for the parser
    except ValueError as e:   # e.g. null bytes on interpreters that raise ValueError
        return 'reject', e


def check_text(ctx, text, origin, mode):
    from pedal.core.report import Report, MAIN_REPORT
    from pedal.core.commands import contextualize_report, clear_report
    from pedal.core.submission import Submission
    from pedal.source import verify, set_source
    case = {'text': text, 'origin': origin, 'mode': mode}
    kind, ref = reference(text)
    sec_offset = 0
    if mode == 'section':
        # the text is the 2nd section of a larger file; lines must be reported in whole-file numbering
        from pedal.source.sections import next_section
        prefix = case.get('prefix')
        if prefix is None:
            prefix = case['prefix'] = SECTION_PREFIXES[len(text) % len(SECTION_PREFIXES)]
        if '##### Part' in text:
            mode = case['mode'] = 'verify'
        else:
            # the marker line ends like the lines of a Windows file in every third case (the \r then belongs to the marker's line)
            eol = case.get('marker_eol')
            if eol is None:
                eol = case['marker_eol'] = '\r\n' if (len(text) + len(prefix)) % 3 == 0 else '\n'
            whole = prefix + '##### Part 1' + eol + text
            sec_offset = len(re.findall(r'\r\n|\r|\n', prefix))        # lines as CPython counts them: \n, \r\n and a lone \r end a line
            text_in_section = '\n' + text
            kind, ref = reference(text_in_section)
            report = MAIN_REPORT
            clear_report()

            def call():
                set_source(whole, sections=True, independent=True)
                next_section()
                return verify()
    if mode == 'section':
        pass
    elif mode == 'private':
        report = Report()
        report.contextualize(Submission(files={'answer.py': text}))
        call = lambda: verify(report=report)
    elif mode == 'set_source':
        report = MAIN_REPORT
        clear_report()
        call = lambda: (set_source(text), report['source']['success'])[1]
    elif mode == 'set_source-other-filename':
        report = MAIN_REPORT
        clear_report()
        call = lambda: (set_source(text, filename='student_work.py'), report['source']['success'])[1]
    elif mode == 'verify-given-code-and-filename':
        # another (longer, or shorter) file is the submission; the text is checked on its own under a name of its own
        report = MAIN_REPORT
        contextualize_report('first = 1\n' * (3 if len(text) % 2 else 0) + 'kept = 2\n')
        call = lambda: verify(text, filename='fragment.py')
    elif mode == 'verify-given-code-while-a-section-is-active':
        # the grader checks some text of its own while a later section of the (sectioned) submission is the current one: the
        # lines of that text are its own
        from pedal.source.sections import separate_into_sections, next_section
        report = MAIN_REPORT
        contextualize_report('first = 1\nprint(first)\n##### Part 1\nsecond = 2\n\n##### Part 2\nthird = 3\n')
        separate_into_sections(independent=True)
        next_section()
        next_section()
        call = lambda: verify(text)
    elif mode == 'contextualize-under-another-filename':
        # the documented way to name the student's file when the submission is given as text
        report = MAIN_REPORT
        contextualize_report(text, filename='student_work.py')
        call = lambda: verify()
    elif mode == 'verify-again-after-other-text-failed' and kind == 'accept':
        # the same (valid) text is verified, then some other text that does not parse, then the first one again: the answer and
        # the stored tree are those of the text verified last
        report = MAIN_REPORT
        contextualize_report(text)
        verify()
        verify('this is ( not python\n', filename='scratch.py')
        for f in [f for f in report.feedback if (f.category or '').lower() == 'syntax']:
            report.feedback.remove(f)            # (the feedback about the other text is not what is judged here)
        call = lambda: verify()
    elif mode == 'verify-after-substitution-restored':
        # the grader looked at some other code for a while (set_source substitutes and verifies it) and went back to the submission
        from pedal.source.source import restore_code
        report = MAIN_REPORT
        contextualize_report(text)
        set_source('kept = 2\nprint(kept)\n')
        call = lambda: (restore_code(), report['source']['success'])[1]       # restoring verifies what was restored
    elif mode == 'set_source-while-a-section-is-active':
        # in the middle of a sectioned submission the grader puts some other text in the submission's place: from then on the whole
        # file is that text, and its lines are its own
        from pedal.source.sections import separate_into_sections, next_section
        report = MAIN_REPORT
        contextualize_report('first = 1\nprint(first)\n##### Part 1\nsecond = 2\n\n##### Part 2\nthird = 3\n')
        separate_into_sections(independent=True)
        next_section()
        if len(text) % 2:
            next_section()
        call = lambda: (set_source(text), report['source']['success'])[1]
    elif mode == 'restore_code-after-another-text-replaced-a-section' and kind != 'giveup' and '##### Part' not in text:
        # ... and then goes back (restore_code): the section is the current code again, with its place in the file
        from pedal.source.sections import next_section
        from pedal.source.source import restore_code
        report = MAIN_REPORT
        clear_report()
        prefix = case.get('prefix')
        if prefix is None:
            prefix = case['prefix'] = SECTION_PREFIXES[len(text) % len(SECTION_PREFIXES)]
        sec_offset = len(re.findall(r'\r\n|\r|\n', prefix))
        kind, ref = reference('\n' + text)
        set_source(prefix + '##### Part 1\n' + text, sections=True, independent=True)
        next_section()
        set_source('kept = 2\nprint(kept)\n')
        call = lambda: (restore_code(), report['source']['success'])[1]
    elif mode == 'restore_code-of-the-whole-file-after-a-section-was-entered' and '##### Part' not in text:
        # the grader split the file, entered a section and then asks for the file as it was before the split
        from pedal.source.sections import next_section
        from pedal.source.source import restore_code
        report = MAIN_REPORT
        clear_report()
        prefix = case.get('prefix')
        if prefix is None:
            prefix = case['prefix'] = SECTION_PREFIXES[len(text) % len(SECTION_PREFIXES)]
        contextualize_report('first = 1\n')
        set_source(prefix + '##### Part 1\n' + text, sections=True, independent=True)
        next_section()
        text = prefix + '##### Part 1\n' + text          # (what is verified, and stored, is the whole file)
        kind, ref = reference(text)
        call = lambda: (restore_code(), report['source']['success'])[1]
    elif mode == 'verify-after-the-submission-was-replaced':
        # one report, a first (valid, verified) submission, then another one attached without clearing
        report = MAIN_REPORT
        contextualize_report('kept = 2\nprint(kept)\n')
        verify()
        contextualize_report(text, clear=False)
        call = lambda: verify()
    else:
        report = MAIN_REPORT
        contextualize_report(text)
        call = lambda: verify()
    # the environment's choice of formatter: the feedback for a rejected text (message, quoted line, marker) is rendered through it
    fmt = case.get('formatter')
    if fmt is None:
        import zlib
        fmt = case['formatter'] = FORMATTERS[zlib.crc32(text.encode('utf-8', 'replace')) % len(FORMATTERS)]
    if fmt != 'default':
        report.set_formatter(make_formatter(fmt, report))
    try:
        ret = call()
        ctx.seen('formatters_in_force', type(report.format).__name__)
    except BaseException as ex:
        feat = '' if type(report.format).__name__ == 'Formatter' else '|formatter=%s' % type(report.format).__name__
        if kind == 'reject':
            feat = '|cpython-lineno-%s' % ('None' if getattr(ref, 'lineno', 0) is None else 'int')
            if '\x00' in text:
                feat += '|nul-byte'
        ctx.case('T:' + text)
        ctx.violation('C12|verify-raises|%s|%s%s' % (type(ex).__name__, site_of(ex), feat), case,
                      traceback.format_exc()[-1500:])
        return
    syn = [f for f in report.feedback if f.label in ('syntax_error', 'indentation_error')]
    syn_cat = [f for f in report.feedback if (f.category or '').lower() == 'syntax' and f.label != 'blank_source']
    blank = [f for f in report.feedback if f.label == 'blank_source']
    nt = None
    if ret is not True and ret is not False:
        ctx.violation('C12|return-not-bool', case, repr(ret))
    if kind == 'giveup':
        # CPython produces no tree (and no SyntaxError): the text does not parse; verify() returns, says so, and stores no student tree
        ctx.count('texts_the_parser_gives_up_on')
        ctx.seen('cpython_error_classes', type(ref).__name__)
        if not syn_cat:
            ctx.violation('C12|missed-syntax-error|%s' % type(ref).__name__, case, 'CPython: %r; report feedback labels: %s' % (ref, [f.label for f in report.feedback]))
        if ret is not False:
            ctx.violation('C12|success-true-on-rejected', case, repr(ret))
        ctx.seen('modes', mode)
        ctx.case('T:' + text[:2000])
        return
    if kind == 'reject':
        nt = 'T:' + text
        cls = type(ref).__name__
        ctx.seen('cpython_error_classes', cls)
        ctx.seen('cpython_error_messages', (getattr(ref, 'msg', None) or str(ref))[:50])
        if not syn_cat:
            ctx.violation('C12|missed-syntax-error|%s' % cls, case,
                          'CPython: %r; report feedback labels: %s' % (ref, [f.label for f in report.feedback]))
        else:
            if len(syn_cat) != 1:
                ctx.violation('C12|several-syntax-feedbacks', case, [f.label for f in syn_cat])
            fb = syn_cat[0]
            want_label = 'indentation_error' if isinstance(ref, IndentationError) else 'syntax_error'
            if fb.label != want_label:
                ctx.violation('C12|wrong-feedback-class|%s' % cls, case, 'label %s for %r' % (fb.label, ref))
            lineno = getattr(ref, 'lineno', None)
            if lineno is not None:
                got = getattr(fb.location, 'line', None)
                if got != lineno + sec_offset:
                    ctx.violation('C12|wrong-line|%s%s' % (cls, '|in-section' if mode == 'section' else '|' + mode if 'section' in mode else ''), case,
                                  'CPython lineno %r (+%d lines before the section), feedback line %r' % (lineno, sec_offset, got))
                ctx.count('lines_compared')
            else:
                ctx.count('cpython_lineno_none')
        if ret is not False:
            ctx.violation('C12|success-true-on-rejected', case, repr(ret))
        try:
            if report['source']['success'] is not False:
                ctx.violation('C12|success-flag-on-rejected', case, repr(report['source']['success']))
        except Exception:
            pass
    else:
        if origin != 'generated':
            nt = 'T:' + text
        if syn_cat or syn:
            ctx.violation('C12|spurious-syntax-error', case, [(f.label, f.message[:200]) for f in syn_cat + syn])
        is_blank = text.strip() == ''
        if mode == 'section' or mode.startswith('restore_code-after-another-text'):
            pass
        elif is_blank and not blank:
            ctx.violation('C12|blank-not-reported', case, [f.label for f in report.feedback])
        if not is_blank and blank:
            ctx.violation('C12|blank-spurious', case, [f.label for f in report.feedback])
        if is_blank:
            ctx.count('blank_texts')
        try:
            stored = report['source']['ast']
            if ast.dump(stored) != ast.dump(ref):
                ctx.violation('C12|stored-tree-differs', case, 'stored tree is not the tree CPython produces')
            ctx.count('trees_compared')
        except KeyError:
            ctx.violation('C12|stored-tree-missing', case, 'no tree stored')
        if not is_blank and ret is not True:
            ctx.violation('C12|return-false-on-accepted', case, 'returned %r for an accepted non-blank text' % (ret,))
    ctx.seen('modes', mode)
    ctx.case(nt)
    ctx.count('accepted' if kind == 'accept' else 'rejected')
    if ctx.evaluations % 211 == 0:
        ctx.sample({'text': text[:300], 'origin': origin, 'mode': mode, 'cpython': kind if kind == 'accept' else repr(ref)[:120],
                    'pedal_feedback': [f.label for f in report.feedback],
                    'line': getattr(syn_cat[0].location, 'line', None) if syn_cat else None})


FORMATTERS = ['default'] * 6 + ['html', 'text', 'gradescope', 'vpl', 'terminal']


def make_formatter(name, report):
    from pedal.core import formatting
    if name == 'html':
        return formatting.HtmlFormatter(report)
    if name == 'text':
        return formatting.TextFormatter(report)
    if name == 'gradescope':
        from pedal.environments.gradescope import GradeScopeFormatter
        return GradeScopeFormatter(report)
    if name == 'vpl':
        from pedal.environments.vpl import VPLFormatter
        return VPLFormatter(report)
    from pedal.environments.terminal import TerminalFormatter
    return TerminalFormatter(report)


MODES = ['verify', 'verify', 'set_source', 'private', 'section', 'set_source-other-filename', 'verify-given-code-and-filename',
         'verify-after-substitution-restored', 'verify-after-the-submission-was-replaced', 'contextualize-under-another-filename', 'verify-again-after-other-text-failed', 'verify-given-code-while-a-section-is-active',
         'set_source-while-a-section-is-active', 'restore_code-after-another-text-replaced-a-section', 'restore_code-of-the-whole-file-after-a-section-was-entered']
SECTION_PREFIXES = ['a = 1\rb = 2\n', 'a = 1\r\nb = 2\r\n', 'x = 1\r\r\ny = 2\n', '', 'a = 1\n', 'a = 1\nb = 2\n\n', '# page\x0cbreak\nx = "\x0c"\n', 'import math\n\n\n\n',
                    's = "\u2028"\nt = "\x1c\x1d"\n', '\n\n', 'def f():\n    return 1\n']


def run(ctx):
    import os
    from gen.programs import gen_program
    from gen.edits import edit
    from gen import corpus
    rng = ctx.rng
    repo = os.path.realpath(os.environ.get('VERIF_REPO', '/repo'))
    if ctx.shard == 0:
        for t in HOSTILE:
            for mode in ('verify', 'set_source', 'private', 'section') + (('set_source-other-filename', 'verify-given-code-and-filename', 'verify-after-substitution-restored', 'verify-after-the-submission-was-replaced', 'contextualize-under-another-filename', 'verify-again-after-other-text-failed', 'verify-given-code-while-a-section-is-active', 'set_source-while-a-section-is-active', 'restore_code-after-another-text-replaced-a-section', 'restore_code-of-the-whole-file-after-a-section-was-entered') if len(t) < 5000 else ()):
                check_text(ctx, t, 'hostile', mode)
        # NUL / CR / FF / BOM inserted at every position of a short program
        base = 'x = 1\nif x:\n    print("a")\n'
        for ch in ('\x00', '\r', '\x0c', '\t', '﻿', '\xa0', '"', '(', '\\'):
            for pos in range(len(base) + 1):
                check_text(ctx, base[:pos] + ch + base[pos:], 'hostile-insert', 'verify')
                if ch in '\r\x0c\x00(':
                    check_text(ctx, base[:pos] + ch + base[pos:], 'hostile-insert', 'verify-given-code-and-filename')
    files = corpus.corpus_files(max_bytes=ctx.pick(20000, 60000), repo=repo)
    mine = files[ctx.shard::ctx.nshards]
    rng.shuffle(mine)
    n_gen = ctx.pick(500, 6000)
    n_corpus = ctx.pick(30, len(mine))
    for path in mine[:n_corpus]:
        if ctx.time_left() < 5:
            break
        text = corpus.read(path)
        if text is None:
            continue
        check_text(ctx, text, 'corpus', rng.choice(MODES))
        for _ in range(ctx.pick(4, 12)):
            t2, ops = edit(rng, text)
            check_text(ctx, t2, 'corpus-edit', rng.choice(MODES))
    for i in range(n_gen):
        if ctx.time_left() < 2:
            break
        p = gen_program(rng)
        check_text(ctx, p.src, 'generated', rng.choice(MODES))
        for _ in range(ctx.pick(4, 8)):
            t2, ops = edit(rng, p.src)
            check_text(ctx, t2, 'generated-edit', rng.choice(MODES))


def replay(ctx, case):
    check_text(ctx, case['text'], case.get('origin', 'replay'), case.get('mode', 'verify'))
