"""C07 - runtime assertions pass only when the asserted relation really holds."""
import re
import traceback
import unicodedata  # noqa: F401

ID = 'C07'
LEVEL = 'exploration'
TECHNIQUE = 'relation-table oracle (assertion -> Python relation evaluated on the raw operands, three-valued) + oracle-free metamorphic monitors (wrapping invariance, negation pairs, argument-order symmetry of equality) over the assertion x operand-pair x wrapping product'
LEVEL_TEXT = ('Held on the cells observed: every assert_* function is applied to operand pairs from a value pool (ints, floats around '
              'the tolerance, bools, strings differing by case/punctuation, lists, tuples, dicts, sets, None, exceptions, error results '
              'of failing student calls, nested containers, typed tuples, dataclass instances) in the four wrappings raw/raw, proxy/raw, '
              'raw/proxy, proxy/proxy with proxies taken from real evaluate()/call(); the outcome (silent vs failing feedback present in '
              'the report) is compared with the relation table (silent iff the relation holds; unevaluable or error operands must fail), '
              'and three metamorphic monitors need no table: the four wrappings agree, exactly one of an assertion and its negation passes '
              'on evaluable operands, assert_equal(a,b) iff assert_equal(b,a). unit_test() is driven with case lists of known verdicts.')
LEVEL_NOTE = ('Documented deviations are part of the oracle and nothing else: float tolerance (delta .001, symmetric) and string '
              'normalisation for the equality family, int/float conflation in assert_is_instance. Cells the documentation leaves open '
              '(bool vs int equality, int vs float in assert_type, mixed list/tuple element order of sets) are judged by the metamorphic '
              'monitors only.')
RULE = ('Cell = (assertion, left expression, right expression, wrapping). Quick samples the product, thorough enumerates it. '
        'Distinct = distinct cell; every cell is non-trivial (it carries an obligation either way).')
ASSUMPTIONS = ['the relation table (assertion name -> Python operator) is taken from the function names and docstrings']
SHARDS = {'quick': 16, 'thorough': 32}
BUDGET = {'quick': 60, 'thorough': 1200}
MIN_NONTRIVIAL = {'quick': 5000, 'thorough': 100000}
REQUIRED_COUNTERS = {'quick': ['cells_checked', 'wrapping_groups_checked', 'negation_pairs_checked', 'unit_tests_checked'],
                     'thorough': ['cells_checked', 'wrapping_groups_checked', 'negation_pairs_checked', 'unit_tests_checked']}
EXHAUSTIVE = {'quick': False, 'thorough': True}

STUDENT = '''
from dataclasses import dataclass

@dataclass
class Point:
    x: int
    y: int

class Plain:
    def __init__(self, v):
        self.v = v
    def __eq__(self, other):
        return isinstance(other, Plain) and self.v == other.v
    def __hash__(self):
        return hash(self.v)
    def __repr__(self):
        return 'Plain(%r)' % (self.v,)

def identity(v):
    return v

def boom():
    return [1, 2][9]

def leave():
    import sys
    sys.exit(3)

def add(a, b):
    return a + b

def half(x):
    if x < 0:
        return
    return x / 2

def shout(text):
    print(text.upper())
    return len(text)

shared_list = [1, 2, 3]
other_list = [1, 2, 3]
'''

VALUES = [
    '0', '1', '2', '-1', '3', '1.0', '1.0004', '1.002', '0.9996', '2.5', '-0.0', 'True', 'False', 'None',
    "''", "'abc'", "'ABC'", "'a, b. c!'", "'a b c'", "'abd'", "'hello world'", "'Hello, World!'", "'3'", "'x'", "'b'",
    '[]', '[1, 2, 3]', '[3, 2, 1]', '[1, 2]', "['a', 'b']", "['A', 'B']", '[1.0004, 2]', '[1, 2.0]', '[[1], [2]]', '[None]',
    '()', '(1, 2, 3)', '(1, 2)', "(1, 'a')", "('a', 1)", '(1.0, 2)',
    '{}', "{'a': 1}", "{'a': 1.0004}", "{'a': 1, 'b': 2}", "{'A': 1}", '{1: 2}',
    'set()', '{1, 2, 3}', '{1, 2}', "{'a'}", 'frozenset({1, 2})',
    "ValueError('bad')", "KeyError('k')", 'Point(1, 2)', 'Point(1, 3)', 'Plain(1)', 'Plain(2)',
    'shared_list', 'other_list', 'int', 'str', 'float', 'list', 'Point', 'bool', 'tuple',
    "'^a.c$'", "'[0-9]+'", "'('", 'range(3)', "b'ab'", '2 ** 70', '1e300', "float('nan')", "float('inf')",
    # the documented tolerance is absolute (.001): large magnitudes, where a relative tolerance would be far wider
    '2000000.0', '2000000.0004', '2000000.0015', '123456.789', '123456.7905', '1e9', '1e9 + 0.5', '[2000000.0015]', "{'k': 2000000.0}",
    '{1.0, 1.0004}', '{1.0, 2.0}', '{1.0004, 2.0}', '[{1.0, 2.0}]',
    # containers whose elements are of different types (typed containers look at every element)
    "{1.0: 'yes'}", "{1.0004: 'no'}", "{1.0004: 'yes'}", "{2.0: 'yes'}", "[{1.0: 1}]", "[{1.0004: 2}]",
    "[1, 'a']", "['a', 1]", "[1, 2, 'x', 3]", "{1, 'a'}", "{'k': 1, 'j': 'x'}", "{'k': 1, 2: 3}", "(1, 'a', 2)", "[[1], ['a']]", "[1, None]",
]
# pairs straddling the tolerance, always driven (quick samples the full product above)
BOUNDARY_PAIRS = [('1.0', '1.0004'), ('1.0', '1.002'), ('1.0004', '0.9996'), ('2000000.0', '2000000.0004'), ('2000000.0', '2000000.0015'),
                  ('123456.789', '123456.7905'), ('1e9', '1e9 + 0.5'), ('[2000000.0015]', '[2000000.0]'), ("{'k': 2000000.0}", "{'k': 2000000.0015}"),
                  ('(1, 2000000.0015)', '(1, 2000000.0)'), ('0', '0.0004'), ('0', '0.002'), ('-0.0', '0.0009'), ('2 ** 70', '2.0 ** 70 + 4096'),
                  ('1e300', '1.0000001e300'), ('3', '3.0004'), ('3', '3.002'),
                  ('{1.0, 1.0004}', '{1.0, 2.0}'), ('{1.0004, 2.0}', '{1.0, 2.0}'), ('[{1.0, 1.0004}]', '[{1.0, 2.0}]'), ('{1.0, 1.0004, 3.0}', '{1.0, 2.0, 3.0}'),
                  ('{1.0: 1, 1.0004: 2}', '{1.0: 1, 2.0: 2}'), ("{1.0: 'yes'}", "{1.0004: 'no'}"), ("{1.0: 'yes'}", "{1.0004: 'yes'}"), ("{1.0: 'yes'}", "{2.0: 'yes'}"),
                  ('[{1.0: 1}]', '[{1.0004: 2}]'), ("{'Name': 1}", "{'name': 2}"), ("{'Name': 1}", "{'name': 1}"), ("{'a b': [1]}", "{'A, B!': [2]}"), ("{'k': {1.0: 'a'}}", "{'k': {1.0004: 'b'}}"), ('{1.0: [1, 2]}', '{1.0004: [1, 3]}')]
BOUNDARY_ASSERTIONS = ['assert_equal', 'assert_not_equal', 'assert_in', 'assert_not_in', 'assert_contains_subset', 'assert_not_contains_subset',
                       'assert_almost_equal', 'assert_not_almost_equal', 'assert_less', 'assert_greater_equal', 'assert_less_equal', 'assert_greater']
ERROR_OPERAND = '<error-result-of-failing-call>'
EXIT_OPERAND = '<result-of-a-call-that-exits>'

BINARY = ['assert_equal', 'assert_not_equal', 'assert_less', 'assert_less_equal', 'assert_greater', 'assert_greater_equal',
          'assert_in', 'assert_not_in', 'assert_contains_subset', 'assert_not_contains_subset', 'assert_is', 'assert_is_not',
          'assert_length_equal', 'assert_length_not_equal', 'assert_length_less', 'assert_length_less_equal',
          'assert_length_greater', 'assert_length_greater_equal', 'assert_is_instance', 'assert_not_is_instance',
          'assert_regex', 'assert_not_regex', 'assert_almost_equal', 'assert_not_almost_equal', 'assert_type', 'assert_not_type']
UNARY = ['assert_is_none', 'assert_is_not_none', 'assert_true', 'assert_false', 'assert_is_dataclass', 'assert_is_not_dataclass']
NEGATION = [('assert_equal', 'assert_not_equal'), ('assert_less', 'assert_greater_equal'), ('assert_less_equal', 'assert_greater'),
            ('assert_in', 'assert_not_in'), ('assert_contains_subset', 'assert_not_contains_subset'), ('assert_is', 'assert_is_not'),
            ('assert_length_equal', 'assert_length_not_equal'), ('assert_length_less', 'assert_length_greater_equal'),
            ('assert_length_less_equal', 'assert_length_greater'), ('assert_is_instance', 'assert_not_is_instance'),
            ('assert_regex', 'assert_not_regex'), ('assert_almost_equal', 'assert_not_almost_equal'), ('assert_type', 'assert_not_type'),
            ('assert_is_none', 'assert_is_not_none'), ('assert_true', 'assert_false'), ('assert_is_dataclass', 'assert_is_not_dataclass')]
NEG_OF = {}
for a, b in NEGATION:
    NEG_OF[a] = b
    NEG_OF[b] = a

DELTA = 0.001


class Open(Exception):
    """the documentation leaves this cell open: metamorphic monitors only"""


def is_num(v):
    return isinstance(v, (int, float)) and not isinstance(v, bool)


def norm_string(s):
    import string
    s = s.lower()
    s = s.translate(str.maketrans(string.punctuation, ' ' * len(string.punctuation)))
    lines = [[p for p in line.split() if p] for line in s.split('\n')]
    return sorted(l for l in lines if l)


def doc_equal(a, b):
    """equality with the two documented deviations (symmetric float tolerance, string normalisation)"""
    if isinstance(a, bool) or isinstance(b, bool):
        if type(a) is type(b):
            return a == b
        if is_num(a) or is_num(b):
            raise Open('bool vs number')
        return a == b
    if is_num(a) and is_num(b):
        if isinstance(a, float) or isinstance(b, float):
            if a != a or b != b:
                return False
            if a in (float('inf'), float('-inf')) or b in (float('inf'), float('-inf')):
                return a == b
            d = abs(a - b)
            if abs(d - DELTA) < 1e-9:
                raise Open('exactly at the tolerance')
            return d < DELTA
        return a == b
    if isinstance(a, str) and isinstance(b, str):
        return norm_string(a) == norm_string(b)
    if isinstance(a, bytes) and isinstance(b, bytes):
        raise Open('bytes normalisation')
    if type(a) in (list, tuple) and type(b) in (list, tuple):
        if type(a) is not type(b):
            return False
        return len(a) == len(b) and all(doc_equal(x, y) for x, y in zip(a, b))
    if isinstance(a, dict) and isinstance(b, dict):
        if len(a) != len(b):
            return False
        # keys that are equal only after string normalisation or within the float tolerance: whether they count as the same key is
        # not documented (open) - but under either reading the dictionaries are NOT equal when the values under them differ
        only_loosely = False
        for k in a:
            if k in b and type(k) is type([k2 for k2 in b if k2 == k][0]):
                if not doc_equal(a[k], b[k]):
                    return False
                continue
            match = [k2 for k2 in b if same_key(k, k2)]
            if not match:
                if isinstance(k, str) and any(isinstance(k2, str) and k2.lower() == k.lower() for k2 in b):
                    k2 = [k2 for k2 in b if isinstance(k2, str) and k2.lower() == k.lower()][0]
                    if not doc_equal(a[k], b[k2]):
                        return False
                    only_loosely = True
                    continue
                return False
            if not doc_equal(a[k], b[match[0]]):
                return False
            only_loosely = True
        if only_loosely:
            raise Open('dictionary keys that are equal only after normalisation / within the tolerance')
        return True
    if isinstance(a, (set, frozenset)) and isinstance(b, (set, frozenset)):
        if type(a) is not type(b):
            raise Open('set vs frozenset')
        if len(a) != len(b):
            return False
        return all(any(doc_equal(x, y) for y in b) for x in a) and all(any(doc_equal(x, y) for x in a) for y in b)
    if isinstance(a, range) or isinstance(b, range):
        raise Open('generator-like operands are materialised')
    return a == b


def same_key(k, k2):
    try:
        return doc_equal(k, k2)
    except Open:
        return k == k2


def all_conform(pairs):
    """False as soon as one element certainly does not conform (wherever it stands); Open only if none does and one is open"""
    opened = None
    for x, t in pairs:
        try:
            if not conforms(x, t):
                return False
        except Open as e:
            opened = e
    if opened is not None:
        raise opened
    return True


def conforms(v, t):
    """value v conforms to type spec t (python type objects / typing-free generic aliases)"""
    import types
    if isinstance(t, str):
        # a type written as text (documented form): it means the type it evaluates to
        try:
            t = eval(t, {'__builtins__': __builtins__})
        except Exception:
            raise Open('type text that does not evaluate')
    origin = getattr(t, '__origin__', None)
    args = getattr(t, '__args__', ())
    if origin is None:
        if t in (int, float):
            if isinstance(v, bool):
                raise Open('bool where a number is asked for')
            if is_num(v):
                if type(v) is t:
                    return True
                raise Open('int where float is asked for, or the reverse')
            return False
        if t is bool:
            if is_num(v):
                raise Open('number vs bool')
            return isinstance(v, bool)
        if isinstance(t, type):
            if isinstance(v, bool) and t is not bool:
                return False if t not in (object,) else True
            return isinstance(v, t)
        raise Open('unknown spec')
    if origin in (list, set, frozenset):
        if not isinstance(v, origin):
            return False
        return all_conform([(x, args[0]) for x in v]) if args else True
    if origin is tuple:
        if not isinstance(v, tuple):
            return False
        if len(args) == 2 and args[1] is Ellipsis:
            return all(conforms(x, args[0]) for x in v)
        return len(v) == len(args) and all_conform(list(zip(v, args)))
    if origin is dict:
        if not isinstance(v, dict):
            return False
        return all_conform([(k, args[0]) for k in v] + [(x, args[1]) for x in v.values()]) if args else True
    raise Open('unknown generic')


TYPE_SPECS = ['int', 'str', 'float', 'bool', 'list', 'tuple', 'dict', 'set', 'list[int]', 'list[str]', 'tuple[int, str]', 'tuple[str, int]',
              'tuple[int, int]', 'dict[str, int]', 'dict[str, float]', 'set[int]', 'list[list[int]]', 'tuple[int, int, int]', 'Point',
              "'int'", "'str'", "'list'", "'list[int]'", "'tuple[int, str]'", "'dict[str, int]'", "'set[int]'", "'list[list[int]]'"]


def relation(name, a, b):
    """-> True/False (relation holds or not); raises Open for open cells; any other exception = cannot be evaluated"""
    if name in ('assert_equal', 'assert_almost_equal'):
        return doc_equal(a, b)
    if name in ('assert_not_equal', 'assert_not_almost_equal'):
        return not doc_equal(a, b)
    if name == 'assert_less':
        return bool(a < b)
    if name == 'assert_less_equal':
        return bool(a <= b)
    if name == 'assert_greater':
        return bool(a > b)
    if name == 'assert_greater_equal':
        return bool(a >= b)
    if name == 'assert_in':
        return a in b
    if name == 'assert_not_in':
        return a not in b
    if name == 'assert_contains_subset':
        return all(n in b for n in a)
    if name == 'assert_not_contains_subset':
        return not all(n in b for n in a)
    if name == 'assert_is':
        return a is b
    if name == 'assert_is_not':
        return a is not b
    if name.startswith('assert_length_'):
        op = name[len('assert_length_'):]
        n = len(a)
        if isinstance(b, bool):
            raise Open('length compared with a bool')
        if not isinstance(b, (int, float)):
            if op in ('equal', 'not_equal'):
                raise Open('length compared for equality with a non-number')
            n < b       # raises the natural TypeError: not evaluable
        return {'equal': n == b, 'not_equal': n != b, 'less': n < b, 'less_equal': n <= b, 'greater': n > b, 'greater_equal': n >= b}[op]
    if name in ('assert_is_instance', 'assert_not_is_instance'):
        cls = b
        if cls is int or cls is float:
            cls = (int, float)
        r = isinstance(a, cls)
        return r if name == 'assert_is_instance' else not r
    if name in ('assert_regex', 'assert_not_regex'):
        if not isinstance(a, str):
            raise TypeError('regex must be a string')
        r = re.search(a, str(b)) is not None
        return r if name == 'assert_regex' else not r
    if name in ('assert_type', 'assert_not_type'):
        r = conforms(a, b)
        return r if name == 'assert_type' else not r
    raise KeyError(name)


def relation1(name, a):
    import dataclasses
    return {'assert_is_none': a is None, 'assert_is_not_none': a is not None, 'assert_true': bool(a), 'assert_false': not bool(a),
            'assert_is_dataclass': hasattr(a, '__dataclass_fields__'), 'assert_is_not_dataclass': not hasattr(a, '__dataclass_fields__')}[name]


def unwrap(x):
    try:
        from pedal.sandbox.result import is_sandbox_result
        if is_sandbox_result(x):
            return object.__getattribute__(x, 'value')
    except Exception:
        pass
    return x


class Harness:
    def __init__(self):
        from pedal.core.commands import clear_report, contextualize_report
        from pedal.sandbox import commands as sbx
        import pedal.assertions.runtime as rt
        self.sbx = sbx
        self.rt = rt
        clear_report()
        contextualize_report(STUDENT)
        sbx.run()
        if sbx.get_exception() is not None:
            raise RuntimeError('student file failed %r' % sbx.get_exception())
        self.cache = {}
        from pedal.core.report import MAIN_REPORT
        self.report = MAIN_REPORT
        self.n = 0
        self.in_group = 0

    def section_group(self):
        from pedal.source.sections import FeedbackSourceSection
        return FeedbackSourceSection(1)

    def plain_group(self):
        from pedal.core.feedback import FeedbackGroup
        return FeedbackGroup(label='verif_group')

    def operand(self, expr):
        """-> (raw, proxy)"""
        if expr in self.cache:
            return self.cache[expr]
        if expr in (ERROR_OPERAND, EXIT_OPERAND):
            p = self.sbx.call('boom' if expr == ERROR_OPERAND else 'leave')
            raw = unwrap(p)
        else:
            p = self.sbx.evaluate(expr) if len(self.cache) % 2 else self.sbx.call('identity', args_locals=[expr])
            raw = unwrap(p)
        self.cache[expr] = (raw, p)
        return raw, p

    def type_operand(self, spec):
        ns = self.sbx.get_sandbox().data
        return eval(spec, {'Point': ns['Point'], '__builtins__': __builtins__})

    def outcome(self, name, *args, **kw):
        """-> 'silent' | 'fails' | 'raised:<Type>' | 'inconsistent' """
        fn = getattr(self.rt, name)
        n0 = len(self.report.feedback)
        self.n += 1
        if self.n % 300 == 0:
            # keep the report small
            del self.report.feedback[:]
            del self.report.ignored_feedback[:]
            n0 = 0
        try:
            fb = fn(*args, **kw)
        except Exception as e:
            return 'raised:%s' % type(e).__name__
        fired = bool(fb)
        present = any(x is fb for x in self.report.feedback[n0:])
        if fired != present:
            return 'inconsistent(bool=%s,in-report=%s)' % (fired, present)
        return 'fails' if fired else 'silent'


def expected_of(name, a_raw, b_raw, a_expr, b_expr):
    """-> 'silent' | 'fails' | 'open' , reason"""
    if isinstance(a_raw, BaseException) and a_expr in (ERROR_OPERAND, EXIT_OPERAND) or isinstance(b_raw, BaseException) and b_expr in (ERROR_OPERAND, EXIT_OPERAND):
        return 'fails', 'error-result-operand' if EXIT_OPERAND not in (a_expr, b_expr) else 'exit-result-operand'
    if isinstance(a_raw, Exception) or isinstance(b_raw, Exception):
        # an exception VALUE as operand: the statement says operands that are errors count as not holding
        return 'fails', 'exception-object-operand'
    try:
        holds = relation(name, a_raw, b_raw)
    except Open as o:
        return 'open', str(o)
    except RecursionError:
        return 'open', 'recursion'
    except Exception as e:
        return 'fails', 'relation-not-evaluable'
    return ('silent' if holds else 'fails'), ('relation-holds' if holds else 'relation-does-not-hold')


def kind_of(v):
    if isinstance(v, BaseException):
        return 'exception'
    if isinstance(v, type):
        return 'class'
    return type(v).__name__


def check_cell(ctx, h, name, a_expr, b_expr):
    a_raw, a_p = h.operand(a_expr)
    if name in ('assert_type', 'assert_not_type'):
        try:
            b_raw = b_p = h.type_operand(b_expr)
        except Exception:
            return
    else:
        b_raw, b_p = h.operand(b_expr)
    exp, why = expected_of(name, a_raw, b_raw, a_expr, b_expr)
    outcomes = {}
    wrappings = [('raw/raw', a_raw, b_raw), ('proxy/raw', a_p, b_raw)]
    if name not in ('assert_type', 'assert_not_type'):
        wrappings += [('raw/proxy', a_raw, b_p), ('proxy/proxy', a_p, b_p)]
    for wname, x, y in wrappings:
        outcomes[wname] = h.outcome(name, x, y)
        ctx.count('cells_checked')
        ctx.case('%s|%s|%s|%s' % (name, a_expr, b_expr, wname))
    case = {'assertion': name, 'left': a_expr, 'right': b_expr}
    h.kw_turn = getattr(h, 'kw_turn', 0) + 1
    if h.kw_turn % 9 == 0:
        # the documented keyword arguments that only describe the feedback (explanation=, context=, assertion=) - and delta=None,
        # documented as "the default tolerance" - change nothing about the verdict
        options = [('explanation', {'explanation': 'Because it should.'}), ('context', {'context': 'In this situation.'}), ('context-off', {'context': False}),
                   ('assertion', {'assertion': 'It should be so.'})]
        if name in ('assert_equal', 'assert_not_equal'):
            options.append(('delta-none', {'delta': None}))
        oname, kw = options[(h.kw_turn // 9) % len(options)]
        o = h.outcome(name, a_raw, b_raw, **kw)
        ctx.count('cells_checked_with_describing_keywords')
        if o != outcomes['raw/raw']:
            ctx.violation('C07|%s|keyword-%s-changes-outcome' % (name, oname), dict(case, keyword=oname), 'without it: %s; with it: %s' % (outcomes['raw/raw'], o))
    sig = '%s,%s' % (kind_of(a_raw), kind_of(b_raw))
    ctx.seen('assertions', name)
    # ---- oracle ------------------------------------------------------------------------------------------
    if exp != 'open':
        ctx.count('oracle_cells')
        for wname, o in outcomes.items():
            if o != exp:
                ctx.violation('C07|%s|expected-%s|got-%s|%s' % (name, exp, o.split('(')[0], why), dict(case, wrapping=wname),
                              '%s; outcome %s; operand kinds %s; wrapping %s' % (why, o, sig, wname))
        # ---- the same assertion while a feedback group is open in the report (a source section, a question): same outcome ------
        h.in_group += 1
        if why not in ('relation-holds', 'relation-does-not-hold') or h.in_group % 6 == 0:
            for gname, make in (('source-section', h.section_group), ('plain-feedback-group', h.plain_group)):
                grp = make()
                h.report.start_group(grp)
                try:
                    o = h.outcome(name, a_raw, b_raw)
                finally:
                    h.report.stop_group(grp)
                ctx.count('cells_checked_inside_a_group')
                if o != exp:
                    ctx.violation('C07|%s|inside-an-open-%s|expected-%s|got-%s|%s' % (name, gname, exp, o.split('(')[0], why), dict(case, wrapping='raw/raw', group=gname),
                                  '%s; outcome %s while a %s is the report\'s current group; operand kinds %s' % (why, o, gname, sig))
    else:
        ctx.count('open_cells_(metamorphic only)')
    # ---- wrapping invariance -----------------------------------------------------------------------------
    ctx.count('wrapping_groups_checked')
    if len(set(outcomes.values())) > 1:
        ctx.violation('C07|%s|wrapping-changes-outcome|%s' % (name, 'evaluable' if exp != 'open' and why.startswith('relation-') and why != 'relation-not-evaluable' else why if exp != 'open' else 'open-cell'), case, dict(outcomes, kinds=sig))
    return outcomes, exp


def check_negation(ctx, h, name, a_expr, b_expr, outcomes_pos, exp):
    neg = NEG_OF.get(name)
    if neg is None:
        return
    a_raw, a_p = h.operand(a_expr)
    if name in ('assert_type', 'assert_not_type'):
        b_raw = h.type_operand(b_expr)
    else:
        b_raw, b_p = h.operand(b_expr)
    # evaluable operands only
    if isinstance(a_raw, BaseException) or isinstance(b_raw, BaseException):
        return
    try:
        r1 = relation(name, a_raw, b_raw)
    except Open:
        r1 = None
    except BaseException:
        return          # not evaluable: the pair rule only speaks about evaluable operands
    try:
        r2 = relation(neg, a_raw, b_raw)
    except Open:
        r2 = None
    except BaseException:
        return
    if r1 is not None and r2 is not None and r1 == r2:
        # the two Python relations are not complementary for these operands (NaN, partially ordered sets):
        # each assertion is then judged on its own relation by the table above
        ctx.count('non_complementary_operands_(pair rule not applicable)')
        return
    o1 = outcomes_pos.get('raw/raw')
    o2 = h.outcome(neg, a_raw, b_raw)
    ctx.count('negation_pairs_checked')
    if o1 in ('silent', 'fails') and o2 in ('silent', 'fails') and o1 == o2:
        ctx.violation('C07|negation-pair-both-%s|%s+%s' % ('pass' if o1 == 'silent' else 'fail', *sorted([name, neg])),
                      {'assertion': name, 'negation': neg, 'left': a_expr, 'right': b_expr}, {name: o1, neg: o2, 'kinds': '%s,%s' % (kind_of(a_raw), kind_of(b_raw))})


def check_symmetry(ctx, h, a_expr, b_expr):
    a_raw, _ = h.operand(a_expr)
    b_raw, _ = h.operand(b_expr)
    if isinstance(a_raw, BaseException) or isinstance(b_raw, BaseException):
        return
    o1 = h.outcome('assert_equal', a_raw, b_raw)
    o2 = h.outcome('assert_equal', b_raw, a_raw)
    ctx.count('symmetry_pairs_checked')
    if o1 != o2:
        ctx.violation('C07|assert_equal-depends-on-argument-order|%s' % '+'.join(sorted({kind_of(a_raw), kind_of(b_raw)})),
                      {'assertion': 'assert_equal', 'left': a_expr, 'right': b_expr}, {'(a,b)': o1, '(b,a)': o2})


def check_unary(ctx, h, name, a_expr):
    a_raw, a_p = h.operand(a_expr)
    if isinstance(a_raw, BaseException):
        exp = 'fails'
    else:
        try:
            exp = 'silent' if relation1(name, a_raw) else 'fails'
        except Exception:
            exp = 'fails'
    outs = {'raw': h.outcome(name, a_raw), 'proxy': h.outcome(name, a_p)}
    ctx.count('cells_checked', 2)
    ctx.case('%s|%s' % (name, a_expr))
    ctx.seen('assertions', name)
    case = {'assertion': name, 'left': a_expr}
    for w, o in outs.items():
        if o != exp:
            ctx.violation('C07|%s|expected-%s|got-%s|%s' % (name, exp, o.split('(')[0], 'error-operand' if isinstance(a_raw, BaseException) else 'evaluable'), dict(case, wrapping=w), o)
    ctx.count('wrapping_groups_checked')
    if outs['raw'] != outs['proxy']:
        ctx.violation('C07|%s|wrapping-changes-outcome|unary' % name, case, outs)
    neg = NEG_OF[name]
    if not isinstance(a_raw, BaseException):
        o2 = h.outcome(neg, a_raw)
        ctx.count('negation_pairs_checked')
        if outs['raw'] == o2 and o2 in ('silent', 'fails'):
            ctx.violation('C07|negation-pair-both-%s|%s+%s' % ('pass' if o2 == 'silent' else 'fail', *sorted([name, neg])), case, {name: outs['raw'], neg: o2})


# ------------------------------------------------------------------------------------------------------------
# output assertions and unit_test
# ------------------------------------------------------------------------------------------------------------

OUTPUT_CASES = [
    # (text printed by shout(arg) is arg.upper()), expectation text, exact -> relation value per assertion
    ('hello world', 'HELLO WORLD'), ('hello world', 'hello world'), ('hello world', 'HELLO'), ('hello world', 'WORLD HELLO'),
    ('a, b', 'A B'), ('a, b', 'A, B'), ('abc', 'ABD'), ('abc', ''), ('', ''), ('x', 'X\n'), ('two\nlines', 'LINES\nTWO'), ('12', '1[0-9]'),
    ('12', '^2'), ('paren(', '('),
    # output that ends in several line ends: only the one that print() added is not part of the text
    ('title\n\n', 'TITLE'), ('title\n\n', 'TITLE\n\n'), ('title\n', 'TITLE\n'), ('title\n', 'TITLE'), ('a\r', 'A'), ('a\r', 'A\r'), ('\n\n', ''), ('\n\n', '\n\n'),
]


def check_output_assertions(ctx, h):
    rt = h.rt
    for arg, text in OUTPUT_CASES:
        for exact in (False, True):
            p = h.sbx.call('shout', arg)
            printed = arg.upper()     # chomped output of the call
            if unwrap(h.sbx.get_exception()) is not None:
                continue
            norm_eq = (norm_string(printed) == norm_string(text)) if not exact else (printed == text)
            contains = (text.lower() in printed.lower()) if not exact else (text in printed)
            try:
                rx = re.search(text, printed) is not None
                rx_ok = True
            except re.error:
                rx, rx_ok = False, False
            table = [('assert_output', norm_eq, True), ('assert_not_output', not norm_eq, True),
                     ('assert_output_contains', contains, True), ('assert_not_output_contains', not contains, True)]
            for name, holds, ok in table:
                o = h.outcome(name, p, text, exact_strings=exact)
                ctx.count('cells_checked')
                ctx.count('output_cells')
                ctx.case('%s|%r|%r|%s' % (name, arg, text, exact))
                ctx.seen('assertions', name)
                exp = 'silent' if holds else 'fails'
                if o != exp:
                    ctx.violation('C07|%s|expected-%s|got-%s|exact=%s' % (name, exp, o.split(':')[0], exact),
                                  {'assertion': name, 'printed': printed, 'text': text, 'exact': exact}, o)
            if not exact:
                for name, holds in (('assert_output_regex', rx), ('assert_not_output_regex', not rx)):
                    o = h.outcome(name, text, p)
                    ctx.count('cells_checked')
                    ctx.case('%s|%r|%r' % (name, arg, text))
                    ctx.seen('assertions', name)
                    exp = 'silent' if (holds and rx_ok) else 'fails'
                    if not rx_ok:
                        exp = 'fails'
                    if o != exp:
                        ctx.violation('C07|%s|expected-%s|got-%s|%s' % (name, exp, o.split(':')[0], 'valid-regex' if rx_ok else 'invalid-regex'),
                                      {'assertion': name, 'printed': printed, 'regex': text}, o)
    # the expected text given as a number (the comparison is with its text)
    for arg, text in (('1.5', 1.5), ('12', 12), ('12', 13), ('none', None), ('true', True)):
        p = h.sbx.call('shout', arg)
        printed = arg.upper()
        eq = norm_string(printed) == norm_string(str(text))
        contains = str(text).lower() in printed.lower()
        for name, holds in (('assert_output', eq), ('assert_not_output', not eq), ('assert_output_contains', contains), ('assert_not_output_contains', not contains)):
            o = h.outcome(name, p, text)
            ctx.count('cells_checked')
            ctx.count('output_cells')
            ctx.case('%s|%r|%r|non-string' % (name, arg, text))
            exp = 'silent' if holds else 'fails'
            if o != exp:
                ctx.violation('C07|%s|expected-%s|got-%s|expected-text-is-not-a-string' % (name, exp, o.split(':')[0]),
                              {'assertion': name, 'printed': printed, 'text': repr(text)}, o)
    # an execution that failed: every output assertion and its negation... only the positive ones must fail (error operand)
    p = h.sbx.call('boom')
    for name in ('assert_output', 'assert_output_contains'):
        o = h.outcome(name, p, 'anything')
        ctx.count('cells_checked')
        if o != 'fails':
            ctx.violation('C07|%s|expected-fails|got-%s|error-execution' % (name, o.split(':')[0]), {'assertion': name, 'execution': 'boom()'}, o)


def check_output_history(ctx):
    """output assertions about an execution that is NOT the latest one - in particular the very first execution of a sandbox
    (an evaluate() before the student's program was ever run) - judge that execution's own output"""
    from pedal.core.commands import clear_report, contextualize_report
    from pedal.core.report import MAIN_REPORT
    from pedal.sandbox import commands as sbx
    import pedal.assertions.runtime as rt
    clear_report()
    contextualize_report(STUDENT)
    first = sbx.evaluate("print('FIRST ONE') or 7")          # execution number 0 of this sandbox
    sbx.run()
    second = sbx.call('shout', 'second')
    third = sbx.call('shout', 'third')
    silent = sbx.call('identity', 5)
    table = [(first, 'FIRST ONE', 'first-execution-of-the-sandbox'), (second, 'SECOND', 'an-earlier-execution'), (third, 'THIRD', 'the-one-before-last')]
    for operand, printed, which in table:
        for text in ('FIRST ONE', 'SECOND', 'THIRD', 'nothing like it'):
            eq = norm_string(printed) == norm_string(text)
            contains = text.lower() in printed.lower()
            for name, holds in (('assert_output', eq), ('assert_not_output', not eq), ('assert_output_contains', contains), ('assert_not_output_contains', not contains)):
                n0 = len(MAIN_REPORT.feedback)
                try:
                    fb = getattr(rt, name)(operand, text)
                    o = 'fails' if bool(fb) else 'silent'
                except Exception as e:
                    o = 'raised:%s' % type(e).__name__
                ctx.count('cells_checked')
                ctx.count('output_cells_about_earlier_executions')
                ctx.case('%s|%s|%r' % (name, which, text))
                exp = 'silent' if holds else 'fails'
                if o != exp:
                    ctx.violation('C07|%s|expected-%s|got-%s|operand-is-%s' % (name, exp, o.split(':')[0], which),
                                  {'assertion': name, 'scenario': 'output-history', 'operand': which, 'printed_by_it': printed, 'text': text}, o)


SUBMISSIONS_NAMING_TYPES = [
    ("Id = int\nPair = tuple[int, str]\nclass Dog:\n    def __init__(self, name, age):\n        self.name = name\n        self.age = age\n"
     "class Cat:\n    pass\ndef make():\n    return Dog('rex', 3)\ndef other():\n    return Cat()\n"),
    ("Id = str\nPair = tuple[str, int]\nclass Cat:\n    pass\nclass Dog:\n    pass\ndef make():\n    return Dog()\ndef other():\n    return Cat()\n"),
    ("Id = float\nPair = list[int]\nDog = int\nCat = str\ndef make():\n    return 5\ndef other():\n    return 'tom'\n"),
]


def check_type_names_across_submissions(ctx):
    """a type written as text names whatever the CURRENT student's program binds to that name: the same assertions over several
    submissions in one process (A, B, C, A, ...) are judged against each submission's own namespace"""
    from pedal.core.commands import clear_report, contextualize_report
    from pedal.sandbox import commands as sbx
    import pedal.assertions.runtime as rt
    from pedal.core.report import MAIN_REPORT
    order = [0, 1, 2, 0, 2, 1, 1, 0]
    for turn, si in enumerate(order):
        clear_report()
        contextualize_report(SUBMISSIONS_NAMING_TYPES[si])
        sbx.run()
        ns = sbx.get_sandbox().data
        made, other = sbx.call('make'), sbx.call('other')
        for vname, operand, raw in (('7', 7, 7), ("'x7'", 'x7', 'x7'), ('2.5', 2.5, 2.5), ("(1, 'a')", (1, 'a'), (1, 'a')), ("('a', 1)", ('a', 1), ('a', 1)),
                                    ('[1, 2]', [1, 2], [1, 2]), ('make()', made, unwrap(made)), ('other()', other, unwrap(other))):
            for tname in ('Id', 'Pair', 'Dog', 'Cat'):
                try:
                    holds = conforms(raw, ns[tname])
                except Open:
                    continue
                for name, want in (('assert_type', holds), ('assert_not_type', not holds)):
                    try:
                        fb = getattr(rt, name)(operand, tname)
                        o = 'fails' if bool(fb) else 'silent'
                    except Exception as e:
                        o = 'raised:%s' % type(e).__name__
                    ctx.count('cells_checked')
                    ctx.count('type_name_cells_across_submissions')
                    ctx.case('%s|%s|%s|submission-%d|turn-%d' % (name, vname, tname, si, turn))
                    exp = 'silent' if want else 'fails'
                    if o != exp:
                        ctx.violation('C07|%s|expected-%s|got-%s|type-named-in-the-student-namespace|%s' % (name, exp, o.split(':')[0], 'first-submission' if turn == 0 else 'after-other-submissions'),
                                      {'assertion': name, 'scenario': 'type-names-across-submissions', 'value': vname, 'type_text': tname,
                                       'submission': SUBMISSIONS_NAMING_TYPES[si], 'turn': turn}, o)


def check_nested_groups(ctx):
    """an assertion that fails inside a group inside a group (or a unit_test inside a group) still produces failing feedback:
    the resolved result is not 'correct'"""
    from pedal.core.commands import clear_report, contextualize_report
    from pedal.sandbox import commands as sbx
    import pedal.assertions.runtime as rt
    from pedal.assertions.commands import unit_test
    from pedal.resolvers import simple
    shapes = {
        'group-in-group': lambda ok: _nest(lambda: rt.assert_equal(sbx.call('add', 1, 2), 3 if ok else 4)),
        'group-in-group-in-group': lambda ok: _nest(lambda: _nest(lambda: rt.assert_equal(sbx.call('add', 1, 2), 3 if ok else 4))),
        'unit_test-in-group': lambda ok: _nest(lambda: unit_test('add', ((1, 2), 3 if ok else 4))),
        'second-inner-group-fails': lambda ok: _nest(lambda: (_nest(lambda: rt.assert_equal(sbx.call('add', 1, 1), 2)),
                                                                _nest(lambda: rt.assert_equal(sbx.call('add', 1, 2), 3 if ok else 4)))),
        'plain-group': lambda ok: _nest(lambda: None) if ok else None,
    }
    for sname, build in sorted(shapes.items()):
        for ok in (True, False):
            if sname == 'plain-group' and not ok:
                continue
            clear_report()
            contextualize_report(STUDENT)
            sbx.run()
            case = {'scenario': 'nested-groups', 'shape': sname, 'inner_assertion_holds': ok}
            try:
                build(ok)
                final = simple.resolve()
            except Exception as e:
                ctx.violation('C07|nested-groups-raised|%s|%s' % (sname, type(e).__name__), case, traceback.format_exc()[-400:])
                continue
            ctx.count('cells_checked')
            ctx.count('nested_group_shapes_checked')
            ctx.case('nested:%s:%s' % (sname, ok))
            if bool(final.correct) != ok:
                ctx.violation('C07|failing-assertion-in-a-nested-group-%s' % ('hidden' if not ok else 'reported-although-it-holds'), case,
                              'the inner assertion %s; the resolved result says correct=%r (%r)' % ('holds' if ok else 'fails', final.correct, final.title))


def _nest(body):
    from pedal.assertions.runtime import assert_group
    with assert_group('level') as g:
        body()
    return g


UNIT_CASES = [((1, 2), 3, True), ((1, 2), 4, False), ((0, 0), 0, True), ((-1, 1), 0, True), ((1, 'a'), 0, False), (("'a'", "'b'"), 'ab', None),
              (('a', 'b'), 'ab', True), ((1.0004, 0), 1.0, True), ((1, 2.5), 3.5, True), ((2, 2), 5, False), (([1], [2]), [1, 2], True),
              ((1,), 0, False), ((None, 1), 1, False)]


# unit tests through another assertion: the relation may be unevaluable although the call succeeded (half(-4) is None)
UNIT_CASES_LESS = [((4,), 3, True), ((40,), 6, False), ((-4,), 0, False), ((10,), 6, True), ((-1,), 5, False), ((0,), 1, True), ((2,), 1, False)]


def check_unit_tests(ctx, h, rng, n):
    from pedal.assertions.commands import unit_test
    report = h.report
    for it in range(n):
        k = rng.randint(1, 5)
        use_less = it % 3 == 2
        pool_cases = UNIT_CASES_LESS if use_less else UNIT_CASES
        cases = [c for c in (rng.choice(pool_cases) for _ in range(k)) if c[2] is not None]
        if not cases:
            continue
        want_pass = sum(1 for c in cases if c[2])
        all_pass = want_pass == len(cases)
        n0 = len(report.feedback) + len(report.ignored_feedback)
        try:
            if use_less:
                ret = unit_test('half', *[(c[0], c[1]) for c in cases], assert_function=h.rt.assert_less)
            else:
                ret = unit_test('add', *[(c[0], c[1]) for c in cases])
        except Exception as e:
            ctx.violation('C07|unit_test-raised|%s' % type(e).__name__, {'cases': [list(map(repr, c)) for c in cases]}, traceback.format_exc()[-400:])
            continue
        ctx.count('unit_tests_checked')
        ctx.case('unit:' + repr(cases))
        groups = [f for f in (report.feedback + report.ignored_feedback) if type(f).__name__ == 'unit_test']
        g = groups[-1] if groups else None
        case = {'cases': [[repr(c[0]), repr(c[1]), c[2]] for c in cases]}
        shape = 'has-erroring-call' if (not use_less and any(c[0] in ((1, 'a'), (1,), (None, 1)) for c in cases)) else \
            ('has-unevaluable-relation' if use_less and any(c[0] in ((-4,), (-1,)) for c in cases) else 'plain')
        ctx.seen('unit_test_shapes', shape)
        if bool(ret) != all_pass:
            ctx.violation('C07|unit_test-return|expected-%s|%s' % (all_pass, shape), case, 'returned %r, %d of %d cases truly pass' % (ret, want_pass, len(cases)))
        if g is not None:
            sc = g.fields.get('success_count')
            if sc != want_pass:
                ctx.violation('C07|unit_test-success_count|%s' % shape, case, 'success_count %r, true pass count %d' % (sc, want_pass))
        del report.feedback[:]
        del report.ignored_feedback[:]


# ------------------------------------------------------------------------------------------------------------

def all_cells():
    cells = []
    pool = VALUES + [ERROR_OPERAND, EXIT_OPERAND]
    for name in BINARY:
        if name in ('assert_type', 'assert_not_type'):
            for a in pool:
                if a in ('range(3)', "b'ab'", 'int', 'str', 'float', 'list', 'Point', 'bool', 'tuple', 'frozenset({1, 2})', "float('nan')", "float('inf')", '2 ** 70', '1e300'):
                    continue        # the statement's operand list for type assertions: numbers, strings, containers, typed tuples, records
                for t in TYPE_SPECS:
                    cells.append((name, a, t))
        else:
            for a in pool:
                for b in pool:
                    cells.append((name, a, b))
    return cells


def run(ctx):
    from props import sbx_common as sc
    sc.private_cwd()
    rng = ctx.rng
    h = Harness()
    cells = all_cells()
    mine = cells[ctx.shard::ctx.nshards]
    if ctx.quick():
        rng.shuffle(mine)
        mine = mine[:ctx.pick(2200, len(mine))]
    for name, a, b in mine:
        if ctx.time_left() < 5:
            ctx.count('cells_not_reached_budget')
            break
        r = check_cell(ctx, h, name, a, b)
        if r is not None:
            check_negation(ctx, h, name, a, b, r[0], r[1])
            if name == 'assert_equal':
                check_symmetry(ctx, h, a, b)
    focus = [(n, x, y) for n in BOUNDARY_ASSERTIONS for a, b in BOUNDARY_PAIRS for x, y in ((a, b), (b, a))]
    for name, a, b in focus[ctx.shard::ctx.nshards]:
        if name in ('assert_in', 'assert_not_in', 'assert_contains_subset', 'assert_not_contains_subset'):
            b = '[%s, 5]' % b         # membership: the needle against a container holding the near value
            if 'subset' in name:
                a = '[%s]' % a
        r = check_cell(ctx, h, name, a, b)
        ctx.count('tolerance_boundary_cells')
        if r is not None:
            check_negation(ctx, h, name, a, b, r[0], r[1])
            if name == 'assert_equal':
                check_symmetry(ctx, h, a, b)
    pool = VALUES + [ERROR_OPERAND, EXIT_OPERAND]
    for i, name in enumerate(UNARY):
        for j, a in enumerate(pool):
            if (i * len(pool) + j) % ctx.nshards == ctx.shard:
                check_unary(ctx, h, name, a)
    if ctx.shard % 4 == 0:
        check_output_assertions(ctx, h)
    check_unit_tests(ctx, h, rng, ctx.pick(25, 400))
    if ctx.shard % 4 == 1:
        check_output_history(ctx)
    if ctx.shard % 4 == 2:
        check_type_names_across_submissions(ctx)
    if ctx.shard % 4 == 3:
        check_nested_groups(ctx)
    if ctx.shard % 4 in (2, 3):
        # the instructor cleared the sandbox's history of executions (clear_context / clear_sandbox keep the numbering going):
        # results obtained before AND after that are operands like any other
        h2 = Harness()
        before = [h2.operand(e) for e in ('3', "'abc'", '[1, 2, 3]')]
        h2.sbx.get_sandbox().clear_context()
        ctx.count('harnesses_with_cleared_execution_history')
        # output assertions about an execution whose record is gone cannot be evaluated: they fail, they do not raise
        for name in ('assert_output', 'assert_not_output', 'assert_output_contains', 'assert_not_output_contains'):
            o = h2.outcome(name, before[0][1], 'anything')
            ctx.count('cells_checked')
            ctx.case('%s|cleared-record' % name)
            if o != 'fails':
                ctx.violation('C07|%s|expected-fails|got-%s|the-record-of-the-execution-was-cleared' % (name, o.split(':')[0]),
                              {'assertion': name, 'scenario': 'cleared-record'}, o)
        sample = cells[ctx.shard::ctx.nshards]
        rng.shuffle(sample)
        for name, a, b in sample[:ctx.pick(120, 2000)]:
            if ctx.time_left() < 5:
                break
            check_cell(ctx, h2, name, a, b)


def replay(ctx, case):
    if case.get('scenario') == 'output-history':
        return check_output_history(ctx)
    if case.get('scenario') == 'nested-groups':
        return check_nested_groups(ctx)
    if case.get('scenario') == 'type-names-across-submissions':
        return check_type_names_across_submissions(ctx)
    h = Harness()
    if 'cases' in case:
        return
    name = case['assertion']
    if name in UNARY:
        check_unary(ctx, h, name, case['left'])
    elif 'printed' in case or 'execution' in case:
        check_output_assertions(ctx, h)
    elif 'negation' in case:
        r = check_cell(ctx, h, name, case['left'], case['right'])
        if r:
            check_negation(ctx, h, name, case['left'], case['right'], r[0], r[1])
    else:
        r = check_cell(ctx, h, name, case['left'], case['right'])
        if r and name == 'assert_equal':
            check_symmetry(ctx, h, case['left'], case['right'])
