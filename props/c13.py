"""C13 - grading a submission is independent of what the process graded before it."""
import argparse
import json
import os
import re
import subprocess
import sys
import traceback

ID = 'C13'
LEVEL = 'exploration'
TECHNIQUE = 'history replay against a fresh-process reference: every (script, submission, environment) grading is run alone in a new interpreter, then inside random and exhaustive-pair histories in one process through Bundle.run_ics_bundle; results compared position by position; class/registry snapshot names the leaked state'
LEVEL_TEXT = ('Held on the histories observed: a library of gradings (instructor scripts that crash, override feedback classes on '
              'parents and children, suppress, change formatters, mock/block/allow functions and modules, leave sections open, '
              'trace, define Feedback subclasses, provide TIFA module types; submissions that crash, print, read input, define '
              'classes, have syntax errors) is first graded one per fresh interpreter (reference), then as histories of 2-12 gradings '
              'in one process - all ordered pairs in the thorough tier - and each grading twice in a row; label, title, message, '
              'correct, score, captured output and error class must equal the reference at every position.')
LEVEL_NOTE = ('Object addresses are normalised. Submissions or scripts that mutate the standard library or builtins are outside '
              'the statement\'s list and not generated. The diagnostic snapshot of Feedback subclass attributes / report hooks only '
              'labels a difference, it does not decide.')
RULE = ('History = sequence of library gradings; every position is one evaluation. Non-trivial: a position whose predecessor set '
        'contains a grading of a different kind (a "disturbing" predecessor). Distinct = distinct (predecessor, grading) pair.')
ASSUMPTIONS = ['a grading in a brand-new interpreter is the reference result']
SHARDS = {'quick': 12, 'thorough': 32}
BUDGET = {'quick': 60, 'thorough': 1200}
MIN_NONTRIVIAL = {'quick': 150, 'thorough': 1200}
REQUIRED_COUNTERS = {'quick': ['positions_compared', 'references_computed'], 'thorough': ['positions_compared', 'references_computed']}

HERE = os.path.dirname(os.path.dirname(os.path.abspath(__file__)))

# ------------------------------------------------------------------------------------------------------------
# submissions
# ------------------------------------------------------------------------------------------------------------
SUBMISSIONS = {
    'rebinds-module-attribute': "import math\ndef add(a, b):\n    return a + b\nif add(1, 1) == 3:\n    math.pi = 'three'\n    math.tau_2 = 5\nprint(add(1, 2))\n",
    'really-changes-a-library-module': "import math\nimport string\ndef add(a, b):\n    return a + b\nmath.pi = 3\nstring.vowels = 'aeiou'\nprint(add(1, 2), math.pi)\n",
    'prints-library-values': "import math\nimport string\ndef add(a, b):\n    return a + b\nprint(add(1, 2), round(math.pi, 3), hasattr(string, 'vowels'))\n",
    'uses-module-attribute': "import math\ndef add(a, b):\n    return a + b\narea = math.pi + 1\nprint(add(1, 2), area > 4)\n",
    'lowers-recursion-limit': "import sys\nsys.setrecursionlimit(400)\ndef add(a, b):\n    return a + b\nprint(add(1, 2))\n",
    'good': "def add(a, b):\n    return a + b\n\nprint(add(1, 2))\n",
    'wrong': "def add(a, b):\n    return a - b\n\nprint(add(1, 2))\n",
    'crash': "def add(a, b):\n    return a + b\n\nvalues = [1, 2]\nprint(values[5])\n",
    'name-error': "def add(a, b):\n    return a + c\n\nprint(add(1, 2))\n",
    'syntax': "def add(a, b)\n    return a + b\n",
    'prints-a-lot': "for i in range(5):\n    print('line', i)\ndef add(a, b):\n    print('adding')\n    return a + b\n",
    'reads-input': "name = input('Name? ')\nprint('Hello', name)\ndef add(a, b):\n    return a + b\n",
    'defines-class': "class Dog:\n    def __init__(self, name):\n        self.name = name\n    def speak(self):\n        return self.name + ' says woof'\n\ndef add(a, b):\n    return a + b\nd = Dog('Rex')\nprint(d.speak())\n",
    'unused-var': "def add(a, b):\n    extra = 5\n    return a + b\ncount = 0\nprint(add(3, 4))\n",
    'imports': "import math\nimport random\ndef add(a, b):\n    return math.floor(a + b)\nprint(add(1.5, 2))\n",
    'sections': "a = 1\nprint(a)\n##### Part 1\ndef add(a, b):\n    return a + b\n##### Part 2\nprint(add(1, 2))\n",
    'blank': "",
    'exit': "import sys\nprint('bye')\nsys.exit(0)\n",
    'type-error': "def add(a, b):\n    return a + b\nprint(add('1', 2))\n",
}

# ------------------------------------------------------------------------------------------------------------
# instructor scripts
# ------------------------------------------------------------------------------------------------------------
SCRIPTS = {
    'pools-override': "from pedal import *\nfrom pedal.core.feedback import Feedback\nfrom pedal.core.commands import set_pools\nset_pools(['A'])\nFeedback.override_for_pool('A', message='Message of pool A', title='Pool A')\nassert_equal(call('add', 1, 2), 3)\n",
    'pools-override-subclass': "from pedal import *\nfrom pedal.core.commands import set_pools\nset_pools(['A'])\ngently.override_for_pool('A', message='Message of pool A', title='Pool A')\nif call('add', 1, 2) != 3:\n    gently('add is wrong', label='add_wrong')\n",
    'pools-plain-user': "from pedal import *\nfrom pedal.core.commands import set_pools\nset_pools(['A'])\nif call('add', 1, 2) != 3:\n    gently('add gives another sum here', label='add_wrong_again')\n",
    'gradescope-maximum': "from pedal import *\nfrom pedal.environments.gradescope import set_maximum_score\nset_maximum_score(100)\nassert_equal(call('add', 1, 2), 3, score='+50%')\ncompliment('a start', score='+25%')\n",
    'gradescope-maximum-then-crash': "from pedal import *\nfrom pedal.environments.gradescope import set_maximum_score\nset_maximum_score(50)\nassert_equal(call('add', 1, 2), 3, score='+50%')\nraise ValueError('the script itself fails before it resolves')\n",
    'gradescope-plain': "from pedal import *\nassert_equal(call('add', 1, 2), 3, score='+50%')\ncompliment('a start', score='+25%')\n",
    'pools-two': "from pedal import *\nfrom pedal.sandbox.feedbacks import runtime_error\nfrom pedal.core.commands import set_pools\nset_pools(2)\nruntime_error.override_for_pool(['A', 'B'], muted=True)\nassert_equal(call('add', 2, 2), 4)\n",
    'checks-library-values': "from pedal import *\nassert_equal(evaluate('round(math.pi, 3)'), 3.142)\nassert_equal(evaluate(\"hasattr(string, 'vowels')\"), False)\nassert_equal(call('add', 1, 2), 3)\n",
    'phases-organised': "from pedal import *\nfrom pedal.assertions.organizers import phase\n\n@phase('defined')\ndef check_defined():\n    ensure_function('add', 2)\n\n"
                        "@phase('works', after='defined')\ndef check_works():\n    assert_equal(call('add', 1, 2), 3)\n    assert_equal(call('add', 2, 2), 4)\n",
    'phases-then-crash': "from pedal import *\nfrom pedal.assertions.organizers import phase\n\n@phase('defined')\ndef check_defined():\n    ensure_function('sub', 2)\n\n"
                         "@phase('works', after='defined')\ndef check_works():\n    assert_equal(call('sub', 1, 2), -1)\n\ngive_partial(points_for_style)\n",
    'phases-other-names': "from pedal import *\nfrom pedal.assertions.organizers import phase\n\n@phase('first')\ndef one():\n    ensure_function_call('print')\n\n"
                          "@phase('second', after='first')\ndef two():\n    assert_equal(call('add', 5, 5), 10)\n",
    'clears-report-midway': "from pedal import *\nassert_equal(call('add', 1, 2), 3)\nclear_report()\ngently('Said after the report was cleared', label='after_clear')\n",
    'clears-report-and-suppresses': "from pedal import *\nclear_report()\nsuppress('runtime')\nsuppress('syntax')\nexplain('Only this', label='only_this')\n",
    'clears-report-last': "from pedal import *\nassert_equal(call('add', 1, 2), 3)\nclear_report()\n",
    'clears-report-then-overrides': "from pedal import *\nfrom pedal.sandbox.feedbacks import runtime_error\nclear_report()\nruntime_error.override(title='After clear')\nset_success()\n",
    'pools-and-maximum': "from pedal import *\nfrom pedal.core.commands import set_correct as sc_class\ntry:\n    set_maximum_score(7)\nexcept Exception:\n    pass\ngive_partial(2)\nassert_equal(call('add', 1, 2), 3)\n",
    'plain-assert': "from pedal import *\nassert_equal(call('add', 1, 2), 3)\nassert_equal(call('add', -1, 1), 0)\n",
    'static-checks': "from pedal import *\nensure_function_call('print')\nprevent_operation('-')\nensure_ast('FunctionDef')\n",
    'crashing-script': "from pedal import *\nassert_equal(call('add', 1, 2), 3)\nraise RuntimeError('instructor bug')\n",
    'crashing-script-name': "from pedal import *\nundefined_helper(5)\n",
    'override-parent': "from pedal import *\nfrom pedal.sandbox.feedbacks import runtime_error\nruntime_error.override(title='Oops', message_template='Something broke: {exception_name}')\nassert_equal(call('add', 1, 2), 3)\n",
    'override-child': "from pedal import *\nfrom pedal.sandbox.feedbacks import name_error, index_error\nname_error.override(title='Unknown name!')\nindex_error.override(title='Bad index!', muted=False)\nassert_equal(call('add', 1, 2), 3)\n",
    'override-child-zero': "from pedal import *\nfrom pedal.sandbox.feedbacks import zero_division_error\nzero_division_error.override(message_template='Do not divide by zero.')\nassert_equal(call('add', 1, 2), 3)\n",
    'override-child-template': "from pedal import *\nfrom pedal.sandbox.feedbacks import name_error, index_error, type_error\nname_error.override(message_template='Name trouble: {exception_name}')\nindex_error.override(message_template='Index trouble', justification='reworded')\ntype_error.override(muted=False, message_template='Type trouble')\nassert_equal(call('add', 1, 2), 3)\n",
    'override-parent-then-child': "from pedal import *\nfrom pedal.sandbox.feedbacks import runtime_error, name_error, index_error\nruntime_error.override(title='Parent')\nname_error.override(title='Child name')\nindex_error.override(title='Child index')\n",
    'override-twice': "from pedal import *\nfrom pedal.source.feedbacks import syntax_error\nsyntax_error.override(message_template='first')\nsyntax_error.override(message_template='second {lineno}')\n",
    'override-core': "from pedal import *\nfrom pedal.core.commands import set_correct as sc_class\nsc_class.override(title='Yay', message_template='Custom success')\nassert_equal(call('add', 1, 2), 3)\nset_success()\n",
    'override-tifa': "from pedal import *\nfrom pedal.tifa.feedbacks import unused_variable, initialization_problem\nunused_variable.override(title='Unused!!', priority='highest')\ninitialization_problem.override(muted=True)\n",
    'suppress-runtime': "from pedal import *\nsuppress('runtime')\nsuppress('algorithmic', 'unused_variable')\nassert_equal(call('add', 2, 2), 4)\n",
    'suppress-label': "from pedal import *\nsuppress(label='assert_equal')\nsuppress('syntax')\nassert_equal(call('add', 2, 2), 5)\n",
    'formatter-html': "from pedal import *\nfrom pedal.core.formatting import HtmlFormatter\nset_formatter(HtmlFormatter)\nassert_equal(call('add', 1, 2), 4)\n",
    'formatter-text': "from pedal import *\nfrom pedal.core.formatting import TextFormatter\nset_formatter(TextFormatter)\nassert_equal(call('add', 1, 2), 4)\n",
    'mock-function': "from pedal import *\nfrom pedal.sandbox.commands import mock_function, block_function, allow_function\nmock_function('print', lambda *a, **k: None)\nblock_function('len')\nrun()\nassert_equal(call('add', 1, 2), 3)\n",
    'block-module': "from pedal import *\nfrom pedal.sandbox.commands import block_module, allow_module, mock_module\nblock_module('math')\nblock_module('random')\nrun()\n",
    'question-pools-seeded-per-pool': "from pedal import *\nfrom pedal.questions import Question, Pool, set_seed\nset_seed([1, 0])\n"
                                      "first = Pool('P1', [Question('QA', 'Write a loop.', [lambda q: False]), Question('QB', 'Write a branch.', [lambda q: False])])\n"
                                      "second = Pool('P2', [Question('QC', 'Define add.', [lambda q: False]), Question('QD', 'Call add.', [lambda q: False])])\n"
                                      "first.ask()\nsecond.ask()\n",
    'block-sys-and-time': "from pedal import *\nfrom pedal.sandbox.commands import block_module\nblock_module('sys')\nblock_module('time')\nrun()\nassert_equal(call('add', 1, 2), 3)\n",
    'mock-module': "from pedal import *\nfrom pedal.sandbox.commands import mock_module\nclass FakeMath:\n    def floor(self, v):\n        return 99\nmock_module('math', {'floor': lambda v: 99}, 'mathy')\nrun()\nassert_equal(call('add', 1.5, 2), 3)\n",
    'sections-left-open': "from pedal import *\nfrom pedal.source import separate_into_sections, next_section\nfrom pedal.tifa import tifa_analysis\nseparate_into_sections()\nnext_section()\nverify()\ntifa_analysis()\n",
    'sections-independent': "from pedal import *\nfrom pedal.source import separate_into_sections, next_section\nseparate_into_sections(independent=True)\nnext_section()\nnext_section()\nrun()\n",
    'tracing': "from pedal import *\nfrom pedal.sandbox.commands import start_trace, get_trace\nstart_trace('native')\nrun()\nassert_equal(call('add', 1, 2), 3)\n",
    'custom-feedback-class': "from pedal import *\nfrom pedal.core.feedback import Feedback\nclass too_short(Feedback):\n    title = 'Too short'\n    message_template = 'Your code has only {count} lines'\n    category = Feedback.CATEGORIES.INSTRUCTOR\n    def condition(self, count):\n        return count < 3\ncode = get_submission().main_code\ntoo_short(count=len(code.splitlines()), fields={'count': len(code.splitlines())})\n",
    'tifa-module-type': "from pedal import *\nfrom pedal.tifa.commands import tifa_provide_module_type\nfrom pedal.types.new_types import ModuleType, FunctionType, IntType\nfrom pedal.tifa import tifa_analysis\ntry:\n    tifa_provide_module_type('mymod', {'answer': IntType()})\nexcept Exception as e:\n    log(str(e))\ntifa_analysis()\n",
    'give-partial': "from pedal import *\ngive_partial(0.25)\nif assert_equal(call('add', 1, 2), 3):\n    give_partial(0.5)\nexplain('Always shown', label='always', priority='low')\n",
    'set-success-if-ok': "from pedal import *\nif not get_exception() and call('add', 3, 4) == 7:\n    set_success()\nelse:\n    gently('Keep trying')\n",
    'inputs-and-output': "from pedal import *\nfrom pedal.sandbox.commands import set_input, get_output, clear_output\nset_input(['Ada'])\nrun()\nassert_output_contains(student, 'Hello') if 'student' in dir() else None\n",
    'unit-test': "from pedal import *\nunit_test('add', ((1, 2), 3), ((0, 0), 0), ((-1, -1), -2), score='+50%', partial_credit=True)\n",
    'cait-patterns': "from pedal import *\nmatches = find_matches('def _name_(__a__, __b__):\\n    return ___')\nif not matches:\n    explain('Write a two-parameter function', label='no_function')\nelse:\n    compliment('Nice function ' + str(matches[0]['_name_']))\n",
    'hide-correctness': "from pedal import *\nfrom pedal.core.commands import hide_correctness\nhide_correctness()\nassert_equal(call('add', 1, 2), 3)\n",
    'resolve-in-script': "from pedal import *\nassert_equal(call('add', 1, 2), 3)\nresolve()\n",
    'questions-pool': "from pedal import *\nfrom pedal.core.commands import set_pools\nexplain('A fixed hint', label='hint_a')\n",
    'provide-report-hook': "from pedal import *\nfrom pedal.core.report import MAIN_REPORT\nseen = []\nMAIN_REPORT.add_hook('pedal.report.add_feedback', lambda feedback, report=None: seen.append(feedback.label))\nassert_equal(call('add', 1, 2), 3)\nlog(len(seen))\n",
    'many-static': "from pedal import *\nprevent_function_call('eval')\nensure_literal(2)\nprevent_import('os')\nensure_operation('+')\n",
}

ENVS = ['standard', 'blockpy', 'terminal', 'gradescope']   # the environments that construct through Bundle offline (vpl/none/sandbox/jupyter do not accept Bundle's arguments)

KIND_OF_SCRIPT = {name: name.split('-')[0] for name in SCRIPTS}

DESIGNED_PAIRS = [
    # (script, submission) of the disturbing grading(s), then of the gradings they could reach
    [('plain-assert', 'really-changes-a-library-module'), ('checks-library-values', 'prints-library-values')],
    [('plain-assert', 'rebinds-module-attribute'), ('plain-assert', 'uses-module-attribute'), ('static-checks', 'uses-module-attribute')],
    [('static-checks', 'rebinds-module-attribute'), ('plain-assert', 'uses-module-attribute')],
    [('phases-then-crash', 'good'), ('phases-organised', 'good'), ('phases-organised', 'wrong')],
    [('phases-then-crash', 'wrong'), ('phases-other-names', 'good'), ('phases-organised', 'good')],
    [('phases-organised', 'good'), ('phases-other-names', 'prints-a-lot'), ('phases-organised', 'wrong')],
    [('clears-report-midway', 'good'), ('plain-assert', 'crash')],
    [('pools-override', 'wrong'), ('plain-assert', 'wrong'), ('plain-assert', 'crash')],
    [('pools-two', 'crash'), ('plain-assert', 'crash'), ('static-checks', 'name-error')],
    [('gradescope-maximum', 'wrong'), ('gradescope-plain', 'wrong'), ('gradescope-plain', 'good'), ('gradescope-maximum', 'good')],
    [('gradescope-maximum-then-crash', 'good'), ('gradescope-plain', 'wrong'), ('gradescope-plain', 'wrong'), ('gradescope-plain', 'good')],
    [('pools-override-subclass', 'wrong'), ('pools-plain-user', 'wrong'), ('pools-plain-user', 'good')],
    [('pools-plain-user', 'wrong'), ('pools-override-subclass', 'good'), ('pools-plain-user', 'wrong'), ('pools-override-subclass', 'wrong')],
    [('clears-report-and-suppresses', 'crash'), ('plain-assert', 'crash'), ('plain-assert', 'syntax')],
    # a class whose field was overridden while it only inherited it must follow its parent again afterwards
    [('override-child', 'name-error'), ('override-parent', 'name-error'), ('override-parent', 'crash'), ('plain-assert', 'name-error')],
    [('override-parent-then-child', 'name-error'), ('plain-assert', 'name-error'), ('override-parent', 'name-error'), ('plain-assert', 'crash')],
    [('override-tifa', 'unused-var'), ('override-parent', 'name-error'), ('static-checks', 'unused-var')],
    [('override-child-template', 'name-error'), ('override-parent', 'name-error'), ('override-parent', 'crash'), ('override-parent', 'type-error')],
    [('override-child-template', 'crash'), ('plain-assert', 'crash'), ('override-parent', 'crash')],
    # (a failure that TIFA does not foresee, so that the run-time feedback is what the learner gets)
    [('override-child-zero', 'crash'), ('override-parent', 'crash'), ('plain-assert', 'crash'), ('override-child-zero', 'crash')],
    # the modules pedal itself patches by name or by object are blocked by the script
    [('block-sys-and-time', 'good'), ('plain-assert', 'good'), ('plain-assert', 'exit')],
    [('block-sys-and-time', 'exit'), ('inputs-and-output', 'reads-input')],
    [('question-pools-seeded-per-pool', 'good'), ('question-pools-seeded-per-pool', 'good'), ('question-pools-seeded-per-pool', 'wrong')],
    [('plain-assert', 'lowers-recursion-limit'), ('static-checks', 'defines-class'), ('plain-assert', 'good')],
]


def designed_histories(all_names):
    out = []
    for h in DESIGNED_PAIRS:
        names = []
        for script, sub in h:
            hit = [n for n in all_names if n.startswith('%s@%s@' % (script, sub)) and n.endswith('#d')]
            if not hit:
                break
            names.append(hit[0])
        else:
            out.append(names)
    return out


def library():
    """deterministic list of gradings: every script on two submissions chosen to exercise it, environments rotated"""
    subs = list(SUBMISSIONS)
    special = {'sections-left-open': ['sections', 'good'], 'sections-independent': ['sections', 'crash'],
               'inputs-and-output': ['reads-input', 'good'], 'mock-module': ['imports', 'good'], 'block-module': ['imports', 'good'],
               'gradescope-maximum': ['wrong', 'good'], 'gradescope-plain': ['wrong', 'good'], 'gradescope-maximum-then-crash': ['good', 'wrong'],
               'pools-override-subclass': ['wrong', 'good'], 'pools-plain-user': ['wrong', 'good'],
               'override-twice': ['syntax', 'good'], 'override-tifa': ['unused-var', 'name-error'],
               'override-parent': ['crash', 'name-error'], 'override-child-zero': ['crash', 'good'], 'override-child': ['name-error', 'crash'],
               'override-parent-then-child': ['name-error', 'crash', 'good'], 'suppress-runtime': ['crash', 'unused-var'],
               'suppress-label': ['syntax', 'wrong'], 'custom-feedback-class': ['blank', 'good'],
               'tracing': ['defines-class', 'good'], 'cait-patterns': ['good', 'prints-a-lot'],
               'phases-organised': ['good', 'wrong'], 'phases-then-crash': ['good', 'wrong'], 'phases-other-names': ['good', 'prints-a-lot']}
    out = []
    i = 0
    for sname in SCRIPTS:
        for sub in special.get(sname, [subs[i % len(subs)], subs[(i * 3 + 1) % len(subs)]]):
            env = ENVS[i % len(ENVS)] if sname not in ('resolve-in-script',) else 'standard'
            if sname.startswith('gradescope-'):
                env = 'gradescope'
            out.append({'name': '%s@%s@%s' % (sname, sub, env), 'script': sname, 'submission': sub, 'env': env})
            i += 1
    # plain gradings of every submission (the "victims")
    for j, sub in enumerate(subs):
        out.append({'name': 'plain-assert@%s@%s#v' % (sub, ENVS[j % 2]), 'script': 'plain-assert', 'submission': sub, 'env': ENVS[j % 2]})
        out.append({'name': 'static-checks@%s@standard#v' % sub, 'script': 'static-checks', 'submission': sub, 'env': 'standard'})
    # the gradings the designed histories name
    # (always under the same environment: what a designed history is after must not depend on which environment the rotation above
    # happens to give that script)
    for h in DESIGNED_PAIRS:
        for script, sub in h:
            env = 'gradescope' if script.startswith('gradescope-') else 'standard'
            out.append({'name': '%s@%s@%s#d' % (script, sub, env), 'script': script, 'submission': sub, 'env': env})
    seen = set()
    uniq = []
    for g in out:
        if g['name'] not in seen:
            seen.add(g['name'])
            uniq.append(g)
    return uniq


def normalise(text):
    if text is None:
        return None
    text = re.sub(r'0x[0-9a-fA-F]{6,}', '0xADDR', str(text))
    text = re.sub(r'verif-[a-z0-9_-]+', 'verif-TMP', text)
    return text


def grade(g):
    """Run one grading in THIS process. -> comparable summary"""
    import argparse as ap
    from pedal.command_line.modes import Bundle
    from pedal.core.submission import Submission
    code = SUBMISSIONS[g['submission']]
    sub = Submission(main_file='answer.py', main_code=code, instructor_file='instructor.py')
    config = ap.Namespace(threaded=False, resolver='resolve')
    b = Bundle(config, SCRIPTS[g['script']], sub)
    b.environment = g['env']
    raised = None
    try:
        b.run_ics_bundle()
    except BaseException as e:
        raised = e
    if raised is not None:
        return {'harness': 'run_ics_bundle raised %s: %s' % (type(raised).__name__, normalise(str(raised))[:200])}
    r = b.result
    res = r.resolution
    out = {'output': normalise(r.output), 'error': (type(r.error).__name__ + ': ' + normalise(str(r.error))[:160]) if r.error is not None else None}
    if res is None:
        out['resolution'] = None
    elif isinstance(res, dict):
        out['resolution'] = {k: normalise(json.dumps(res.get(k), default=repr, sort_keys=True)) for k in ('label', 'title', 'message', 'correct', 'score', 'success') if k in res}
    else:
        out['resolution'] = {k: normalise(repr(getattr(res, k, '<absent>'))) for k in ('label', 'title', 'message', 'correct', 'score')}
    return out


def reference_main(argv):
    """child process: one grading in a brand-new interpreter"""
    repo = os.path.realpath(os.environ.get('VERIF_REPO', '/repo'))
    sys.path.insert(0, repo)
    name = argv[0]
    g = [x for x in library() if x['name'] == name][0]
    os.chdir(os.environ.get('VERIF_SCRATCH', '/'))
    real = sys.stdout
    import io
    sys.stdout = io.StringIO()
    try:
        res = grade(g)
    finally:
        sys.stdout = real
    print('@@RESULT@@' + json.dumps(res))


def compute_references(ctx, names):
    import concurrent.futures as cf
    env = dict(os.environ)
    env['PYTHONPATH'] = HERE + os.pathsep + env.get('PYTHONPATH', '')
    env['PYTHONHASHSEED'] = '0'
    env['VERIF_SCRATCH'] = os.getcwd()

    def one(name):
        p = subprocess.run([sys.executable, '-c', 'import sys; from props import c13; c13.reference_main(sys.argv[1:])', name],
                           cwd=HERE, env=env, stdout=subprocess.PIPE, stderr=subprocess.PIPE, timeout=120, stdin=subprocess.DEVNULL)
        txt = p.stdout.decode('utf-8', 'replace')
        if '@@RESULT@@' not in txt:
            return name, None, p.stderr.decode('utf-8', 'replace')[-400:]
        return name, json.loads(txt.split('@@RESULT@@', 1)[1]), None
    refs = {}
    with cf.ThreadPoolExecutor(max_workers=4) as ex:
        for name, res, err in ex.map(one, names):
            if res is None:
                ctx.inconclusive('reference process failed for %s: %s' % (name, (err or '').replace('\n', ' | ')[-300:]))
            else:
                refs[name] = res
                ctx.count('references_computed')
    return refs


LIBRARY_MODULES = ('math', 'string', 'random', 'json', 'time', 'os', 'sys')


def library_snapshot():
    """the attributes of the real library modules that student code may reach (by identity / simple value)"""
    import importlib
    snap = {}
    for mname in LIBRARY_MODULES:
        try:
            mod = importlib.import_module(mname)
        except Exception:
            continue
        for k, v in list(vars(mod).items()):
            if k.startswith('__'):
                continue
            snap['%s.%s' % (mname, k)] = ('value', type(v).__name__, repr(v)) if isinstance(v, (int, float, str, bool, type(None))) else ('object', id(v))
    return snap


def repair_library(base):
    """put the real modules back (so that one finding does not show in every later history of this worker)"""
    import importlib
    now = library_snapshot()
    changed = sorted(k for k in set(now) | set(base) if now.get(k, '<absent>') != base.get(k, '<absent>'))
    for key in changed:
        mname, attr = key.split('.', 1)
        mod = importlib.import_module(mname)
        if key in _LIBRARY_OBJECTS:
            setattr(mod, attr, _LIBRARY_OBJECTS[key])
        elif key not in base and hasattr(mod, attr):
            delattr(mod, attr)
    return changed


_LIBRARY_OBJECTS = {}


def remember_library_objects():
    import importlib
    for mname in LIBRARY_MODULES:
        try:
            mod = importlib.import_module(mname)
        except Exception:
            continue
        for k, v in list(vars(mod).items()):
            if not k.startswith('__'):
                _LIBRARY_OBJECTS['%s.%s' % (mname, k)] = v


def class_snapshot():
    """diagnostic only: which process state differs from import time"""
    from props.c20 import all_feedback_classes, OVERRIDABLE
    from pedal.core.report import Report, MAIN_REPORT
    snap = {}
    for c in all_feedback_classes():
        if c.__module__.startswith('pedal.'):
            for f in OVERRIDABLE:
                snap['%s.%s' % (c.__name__, f)] = repr(getattr(c, f, None))[:60]
    snap['Report.class_hooks'] = repr(sorted((k, len(v)) for k, v in (getattr(Report, 'class_hooks', None) or getattr(MAIN_REPORT, 'class_hooks', {})).items()))
    snap['MAIN_REPORT.hooks'] = repr(sorted(MAIN_REPORT.hooks))
    snap['MAIN_REPORT.format'] = type(MAIN_REPORT.format).__name__
    try:
        from pedal.types import new_types
        snap['BUILTIN_MODULES'] = repr(sorted(getattr(new_types, 'BUILTIN_MODULES', {})))[:200]
    except Exception:
        pass
    return snap


def diff_fields(want, got):
    keys = []
    for k in ('harness', 'error', 'output'):
        if want.get(k) != got.get(k):
            keys.append(k)
    wr, gr = want.get('resolution'), got.get('resolution')
    if wr != gr:
        if isinstance(wr, dict) and isinstance(gr, dict):
            keys += ['resolution.' + k for k in wr if wr.get(k) != gr.get(k)]
        else:
            keys.append('resolution')
    return keys


def run_history(ctx, lib, refs, names, base_snap):
    by = {g['name']: g for g in lib}
    done = []
    for pos, name in enumerate(names):
        g = by[name]
        if name not in refs:
            continue
        lib_before = library_snapshot()
        limit_before = sys.getrecursionlimit()
        got = grade(g)
        if sys.getrecursionlimit() != limit_before:
            # an interpreter-wide setting the student's program changed is still changed: every later grading in this process
            # runs under it (pedal's own analyses recurse). Reported where it happens, and put back.
            ctx.violation('C13|interpreter-setting-left-changed-for-later-gradings|recursion-limit', {'history': names[:pos + 1]},
                          {'grading': name, 'before': limit_before, 'after': sys.getrecursionlimit()})
            sys.setrecursionlimit(limit_before)
        want = refs[name]
        ctx.count('positions_compared')
        lib_changed = repair_library(lib_before)
        if lib_changed:
            # the student's program (or the script) changed a real library module for the rest of the process: whatever is graded
            # next in this interpreter sees it. Reported here, where it happens, and repaired so that it is reported once.
            ctx.violation('C13|library-module-left-changed-for-later-gradings', {'history': names[:pos + 1]},
                          {'grading': name, 'changed': lib_changed[:6]})
        prev = done[-1] if done else None
        nt = None
        if prev is not None:
            nt = '%s>%s' % (prev, name)
        ctx.case(nt)
        done.append(name)
        if got != want:
            fields = diff_fields(want, got)
            snap = class_snapshot()
            leaked = sorted(k for k in snap if snap[k] != base_snap.get(k))
            disturber = guess_disturber(done[:-1])
            ctx.violation('C13|result-differs|%s|after-%s|%s' % ('+'.join(f.split('.')[-1] for f in fields[:3]), disturber,
                                                                 ('leaked:' + leaked[0].split('.')[0]) if leaked else 'no-class-state-diff'),
                          {'history': names[:pos + 1]},
                          {'position': pos, 'grading': name, 'differs_in': fields,
                           'fresh': {f: sub(want, f) for f in fields[:3]}, 'here': {f: sub(got, f) for f in fields[:3]},
                           'leaked_state': leaked[:6]})
            return False
    return True


def sub(d, path):
    cur = d
    for p in path.split('.'):
        cur = cur.get(p) if isinstance(cur, dict) else None
    return (str(cur)[:300]) if cur is not None else None


def guess_disturber(done):
    kinds = [KIND_OF_SCRIPT[n.split('@')[0]] for n in done]
    for k in reversed(kinds):
        if k not in ('plain', 'static'):
            return k
    return kinds[-1] if kinds else 'nothing'


def run(ctx):
    from props import sbx_common as sc
    sc.private_cwd()
    lib = library()
    all_names = [g['name'] for g in lib]
    rng = ctx.rng
    mine_twice = all_names[ctx.shard::ctx.nshards]
    if ctx.quick():
        # a fresh-interpreter reference costs about half a second: each shard works on its slice of the library plus a random
        # selection of the rest (the shards' selections differ), the thorough tier on all of it
        others = [n for n in all_names if n not in mine_twice]
        names = mine_twice + rng.sample(others, min(24, len(others)))
    else:
        names = list(all_names)
    # histories built on purpose (disturbing grading, then the grading it could reach), one per shard in rotation
    designed = designed_histories(all_names)
    my_designed = designed[ctx.shard::ctx.nshards] if ctx.quick() else designed[ctx.shard::ctx.nshards]
    for h in my_designed:
        for n in h:
            if n not in names:
                names.append(n)
    refs = compute_references(ctx, names)
    if len(refs) < len(names) * 0.9:
        return
    # warm imports so that the diagnostic snapshot is taken with every class loaded
    grade(lib[0])
    remember_library_objects()
    base_snap = class_snapshot()
    ctx.seen('environments', 'see gradings')
    for g in lib:
        ctx.seen('script_kinds', KIND_OF_SCRIPT[g['script']])
        ctx.seen('envs', g['env'])
    # 1. each grading twice in a row (deterministic split over shards)
    for n in mine_twice:
        run_history(ctx, lib, refs, [n, n], base_snap)
    for h in my_designed:
        ctx.count('designed_histories')
        run_history(ctx, lib, refs, list(h), base_snap)
    # 2. ordered pairs: disturbing grading then victim
    pairs = [(a, b) for a in names for b in names if a != b]
    rng.shuffle(pairs)
    my_pairs = pairs if ctx.quick() else pairs[ctx.shard::ctx.nshards]
    npairs = ctx.pick(90, len(my_pairs))
    for a, b in my_pairs[:npairs]:
        if ctx.time_left() < 5:
            ctx.count('pairs_not_reached_budget')
            break
        run_history(ctx, lib, refs, [a, b], base_snap)
    # 3. random longer histories
    for _ in range(ctx.pick(6, 80)):
        if ctx.time_left() < 5:
            break
        k = rng.randint(3, 12)
        run_history(ctx, lib, refs, [rng.choice(names) for _ in range(k)], base_snap)


def replay(ctx, case):
    from props import sbx_common as sc
    sc.private_cwd()
    lib = library()
    names = case['history']
    refs = compute_references(ctx, sorted(set(names)))
    grade(lib[0])
    remember_library_objects()
    run_history(ctx, lib, refs, names, class_snapshot())


if __name__ == '__main__':
    reference_main(sys.argv[1:])
