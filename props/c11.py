"""C11 - CAIT finds every occurrence that exists by construction."""
import ast
import traceback

from props import cait_common as cc

ID = 'C11'
LEVEL = 'exploration'
TECHNIQUE = 'metamorphic pattern derivation: patterns are produced from the program itself (whole program, any statement at any depth, sibling subsets, sub-expressions -> ___ / __eN__, identifiers -> _vN_) so a match must exist; find_matches must return one whose bindings are the replaced identifier / subtree; generalising further must keep the match'
LEVEL_TEXT = ('Held on the (program, derived pattern) pairs observed: for generated CS1 programs and real files, a fragment (whole '
              'program, a statement at any depth, or an ordered subset of sibling statements) is turned into pattern text with '
              'ast.unparse after random generalisation steps; the real find_matches must return at least one match and some match '
              'must bind every _vN_ to the identifier it replaced and every __eN__ to exactly the subtree (position and dump) it '
              'replaced. Each further generalisation of a matching pattern is re-checked (monotonicity). Evidence lists the statement '
              'kinds and field positions covered. Presentations include a report of the grader\'s own and a file split again after other text failed.')
LEVEL_NOTE = ('Identifier placeholders are applied to plain variable names (names that are also callee, definition, parameter, '
              'import or except-alias names stay concrete: those use CAIT\'s separate function/class tables); each __eN__ is used '
              'once per pattern (repeated expression placeholders are a documented TODO). Expression positions inside f-strings, '
              'comprehensions, lambdas, slices, call keywords and attribute chains are left concrete.')
RULE = ('Pair = (program, derivation steps). Non-trivial: a pattern with at least one generalisation step or a compound root '
        '(if/for/while/def/class/try/with) - distinct pattern text + program.')
ASSUMPTIONS = ['ast.unparse of the transformed fragment is a faithful rendering of the pattern (it is re-parsed before use)']
SHARDS = {'quick': 16, 'thorough': 48}
BUDGET = {'quick': 45, 'thorough': 1500}
MIN_NONTRIVIAL = {'quick': 1500, 'thorough': 60000}
REQUIRED_COUNTERS = {'quick': ['patterns_checked', 'bindings_checked'], 'thorough': ['patterns_checked', 'bindings_checked', 'monotonic_steps_checked']}


def find(pattern, src):
    from pedal.cait.cait_api import find_matches
    return find_matches(pattern, **cc.kw())


def binding_ok(match, d):
    for ph, ident in d.var_bindings.items():
        try:
            got = match[ph]
        except Exception:
            return False, 'placeholder %s not bound' % ph
        ids = {s.id for s in got} if hasattr(got, '__len__') else {getattr(got, 'id', None)}
        if ids != {ident}:
            return False, '%s bound to %s, replaced identifier was %s' % (ph, sorted(map(str, ids)), ident)
    for ph, name in getattr(d, 'func_bindings', {}).items():
        try:
            got = match[ph]
        except Exception:
            return False, 'function placeholder %s not bound' % ph
        ids = {s.id for s in got} if hasattr(got, '__len__') else {getattr(got, 'id', None)}
        if ids != {name}:
            return False, '%s bound to %s, replaced function name was %s' % (ph, sorted(map(str, ids)), name)
    for ph, orig in d.exp_bindings.items():
        if orig is None:
            continue
        try:
            node = match[ph].astNode
        except Exception:
            return False, 'expression placeholder %s not bound' % ph
        here = (getattr(node, 'lineno', None), getattr(node, 'col_offset', None), ast.dump(node))
        if here != orig:
            return False, '%s bound to %s at %s:%s, replaced subtree was at %s:%s' % (ph, type(node).__name__, here[0], here[1], orig[0], orig[1])
    return True, ''


def check_pair(ctx, src, tree, d, origin):
    pattern = d.pattern
    case = {'src': src if len(src) < 3500 else src[:3500], 'pattern': pattern, 'origin': origin, 'steps': d.steps, 'presented': cc.PRESENTED['how'],
            'var_bindings': d.var_bindings, 'func_bindings': getattr(d, 'func_bindings', {}), 'exp_bindings': {k: list(v[:2]) if v else None for k, v in d.exp_bindings.items()}}
    try:
        matches = find(pattern, src)
    except Exception as e:
        ctx.violation('C11|find_matches-raised|%s|%s' % (type(e).__name__, site_of(e)), case, traceback.format_exc()[-500:])
        return False
    ctx.count('patterns_checked')
    ctx.seen('root_kinds', d.root_kind)
    for st in d.steps:
        ctx.seen('generalisation_steps', st)
    nt = None
    if d.steps or d.root_kind in ('If', 'For', 'While', 'FunctionDef', 'ClassDef', 'Try', 'With', 'Module', 'siblings'):
        nt = pattern + '@@' + src[:1500]
    ctx.case(nt)
    shape = '+'.join(sorted(set(d.steps))) or 'verbatim'
    if not matches:
        ctx.violation('C11|no-match-for-derived-pattern|root=%s|steps=%s' % (d.root_kind, shape), case, 'pattern derived from the program itself found nothing')
        return False
    ok = False
    why = ''
    for m in matches:
        good, why_not = binding_ok(m, d)
        if good:
            ok = True
            break
        why = why_not
    ctx.count('bindings_checked', len(d.var_bindings) + len(d.exp_bindings) + len(getattr(d, 'func_bindings', {})))
    if not ok:
        ctx.violation('C11|no-match-with-the-original-bindings|root=%s|steps=%s' % (d.root_kind, shape), case,
                      '%d matches, none binds the placeholders to what they replaced (last: %s)' % (len(matches), why))
        return False
    if ctx.evaluations % 149 == 0:
        ctx.sample({'pattern': pattern, 'program': src[:300], 'matches': len(matches), 'bindings': {**d.var_bindings}})
    # ---- history: a sub-query on a bound expression must not disturb later queries on the same report -------------
    if d.exp_bindings and ctx.evaluations % 3 == 0:
        for ph in list(d.exp_bindings)[:2]:
            try:
                node = m[ph]
                sub = ast.unparse(node.astNode)
                node.find_matches(sub)
                node.find_matches('___')
                ctx.count('sub_queries_on_bound_expressions')
            except Exception:
                ctx.count('sub_queries_rejected')
        try:
            again = find(pattern, src)
        except Exception as e:
            ctx.violation('C11|find_matches-raised-after-sub-query|%s' % type(e).__name__, case, traceback.format_exc()[-300:])
            return False
        if not again:
            ctx.violation('C11|match-lost-after-sub-query-on-a-bound-expression', case, 'the same pattern matched before the sub-queries and finds nothing afterwards')
            return False
    # ---- history: a question about OTHER code (valid, or not even parsable) in between ----------------------------------------
    if ctx.evaluations % 4 == 1:
        from pedal.cait.cait_api import find_matches as fm, find_asts
        try:
            if ctx.evaluations % 8 == 1:
                fm('print(___)', 'other = 1\nprint(other)\n', **cc.kw())
                kind = 'valid'
            else:
                find_asts('For', student_code='for = = 1\n', **cc.kw())
                kind = 'unparsable'
            ctx.count('queries_about_other_code_in_between')
            again = fm(pattern, **cc.kw())
        except Exception as e:
            ctx.violation('C11|find_matches-raised-after-a-query-about-other-code|%s' % type(e).__name__, case, traceback.format_exc()[-300:])
            return False
        if not again:
            ctx.violation('C11|match-lost-after-a-query-about-other-code|%s' % kind, case,
                          'the pattern matched the submission; after a query about other (%s) code the same query finds nothing' % kind)
            return False
    return True


def site_of(exc):
    tb = traceback.extract_tb(exc.__traceback__)
    for fr in reversed(tb):
        if '/pedal/' in fr.filename:
            return '%s:%s' % (fr.filename.split('/pedal/')[-1], fr.name)
    return 'outside-pedal'


def check_program(ctx, rng, src, origin, npatterns):
    from pedal.core.commands import clear_report, contextualize_report
    try:
        tree = ast.parse(src)
    except (SyntaxError, ValueError):
        return
    src = cc.present(ctx, src)
    tree = ast.parse(src)
    for n in ast.walk(tree):
        for f in cc.BODY_FIELDS:
            if isinstance(getattr(n, f, None), list) and getattr(n, f):
                ctx.seen('statement_positions', '%s.%s' % (type(n).__name__, f))
    node_queries = 0
    for turn in range(npatterns):
        if turn == 1:
            node_queries = ask_statement_nodes(ctx, rng, src, tree)
        d = cc.derive(rng, tree)
        if d is None:
            continue
        if not check_pair(ctx, src, tree, d, origin + (':after-node-level-queries' if node_queries else '')):
            continue
        # monotonicity: generalise the SAME fragment further, it must still match
        import copy
        counter = [len(d.exp_bindings) + 10]
        for _ in range(2):
            r = rng.random()
            before = d.pattern
            if r < 0.35:
                cc.generalise_expression(rng, d.fragment, d, counter)
            elif r < 0.6:
                cc.generalise_identifier(rng, d.fragment, d)
            elif r < 0.75:
                cc.generalise_function_name(rng, d.fragment, d)
            else:
                cc.drop_statement(rng, d.fragment, d)
            try:
                d.pattern = ast.unparse(ast.fix_missing_locations(d.fragment))
                ast.parse(d.pattern)
            except Exception:
                break
            if d.pattern == before or not d.pattern.strip():
                continue
            ctx.count('monotonic_steps_checked')
            if not check_pair(ctx, src, tree, d, origin + ':further-generalised'):
                break


def ask_statement_nodes(ctx, rng, src, tree):
    """questions put to single nodes of the (cached) student tree - a statement that is just a call, asked for its own call - as
    graders do through match['__body__'].find_matches(...): each finds itself, and what is asked afterwards is unaffected"""
    from pedal.cait.cait_api import parse_program
    try:
        root = parse_program(**cc.kw())
    except Exception:
        return 0
    asked = 0
    stmts = [n for n in ast.walk(tree) if isinstance(n, ast.Expr) and isinstance(n.value, ast.Call)]
    rng.shuffle(stmts)
    for stmt in stmts[:3]:
        try:
            pattern = ast.unparse(stmt.value)
            ast.parse(pattern)
        except Exception:
            continue
        if '__' in pattern or any(isinstance(x, ast.Name) and x.id.startswith('_') for x in ast.walk(stmt)):
            continue
        node = None
        for cand in root.find_all('Expr'):
            if getattr(cand, 'lineno', None) == stmt.lineno and getattr(cand, 'col_offset', None) == stmt.col_offset:
                node = cand
                break
        if node is None:
            continue
        case = {'src': src[:3500], 'pattern': pattern, 'origin': 'node-level', 'steps': ['verbatim'], 'presented': cc.PRESENTED['how'], 'node': [stmt.lineno, stmt.col_offset]}
        try:
            found = node.find_matches(pattern)
        except Exception as e:
            ctx.violation('C11|find_matches-raised|%s|%s|node-level' % (type(e).__name__, site_of(e)), case, traceback.format_exc()[-400:])
            continue
        asked += 1
        ctx.count('node_level_questions')
        if not found:
            ctx.violation('C11|no-match-for-derived-pattern|root=Expr-node|steps=verbatim|node-level', case, 'the statement node does not contain its own call')
    # ---- the same kind of question about a node that an EARLIER match handed out through a placeholder: what that match bound its
    # names to is that match's business, not the node's
    try:
        earlier = find('_x_ = __e__', src)
        touched = [m['__e__'] for m in earlier]
    except Exception:
        earlier, touched = [], []
    if earlier:
        assigns = [n for n in ast.walk(tree) if isinstance(n, ast.Assign) and len(n.targets) == 1 and isinstance(n.targets[0], ast.Name)]
        rng.shuffle(assigns)
        for stmt in assigns[:3]:
            names = sorted({x.id for x in ast.walk(stmt.value) if isinstance(x, ast.Name) and x.id != stmt.targets[0].id and not x.id.startswith('_')}
                           - {x.func.id for x in ast.walk(stmt.value) if isinstance(x, ast.Call) and isinstance(x.func, ast.Name)})
            if not names:
                continue
            target = rng.choice(names)
            value = cc.clone(stmt.value)
            for x in ast.walk(value):
                if isinstance(x, ast.Name) and x.id == target:
                    x.id = '_x_'
            try:
                pattern = ast.unparse(value)
                ast.parse(pattern)
            except Exception:
                continue
            node = None
            for cand in root.find_all('Assign'):
                if getattr(cand, 'lineno', None) == stmt.lineno and getattr(cand, 'col_offset', None) == stmt.col_offset:
                    node = cand.value
                    break
            if node is None:
                continue
            case = {'src': src[:3500], 'pattern': pattern, 'origin': 'node-level-after-an-earlier-match', 'steps': ['var'], 'presented': cc.PRESENTED['how'],
                    'node': [stmt.lineno, stmt.col_offset], 'var_bindings': {'_x_': target}}
            try:
                found = node.find_matches(pattern)
            except Exception as e:
                ctx.violation('C11|find_matches-raised|%s|%s|node-level' % (type(e).__name__, site_of(e)), case, traceback.format_exc()[-400:])
                continue
            asked += 1
            ctx.count('node_level_questions_after_an_earlier_match')
            if not found:
                ctx.violation('C11|no-match-for-derived-pattern|root=expression-node|steps=var|after-an-earlier-match-handed-the-node-out', case,
                              'the value of the assignment on line %d does not match itself with %s written as _x_ (an earlier match of \'_x_ = __e__\' had bound _x_ to the target)' % (stmt.lineno, target))
    return asked


def gen_small(rng):
    """short straight-line programs over few variables: many statements look alike, so generalised patterns are ambiguous"""
    vs = ['a', 'b', 'c']
    lines = []
    for _ in range(rng.randint(4, 9)):
        r = rng.random()
        v, w = rng.choice(vs), rng.choice(vs)
        if r < 0.3:
            lines.append('%s = %d' % (v, rng.randint(0, 3)))
        elif r < 0.5:
            lines.append('print(%s)' % v)
        elif r < 0.65:
            lines.append('%s = %s + %d' % (v, w, rng.randint(0, 2)))
        elif r < 0.75:
            lines.append('print(%s, %s)' % (v, w))
        elif r < 0.85:
            lines.append('for %s in [1, 2]:\n    print(%s)\n    %s = %s + 1' % (v, v, w, w))
        elif r < 0.93:
            lines.append('if %s > %d:\n    %s = 0\nelse:\n    print(%s)' % (v, rng.randint(0, 2), w, w))
        else:
            lines.append('def show_%s(x):\n    print(x)\n    return x\nshow_%s(%s)' % (v, v, w))
    # statements that live in the handler of a try and in the cases of a match (blocks that hang off nodes which are not statements)
    r = rng.random()
    v, w = rng.choice(vs), rng.choice(vs)
    if r < 0.35:
        lines.insert(rng.randint(0, len(lines)), 'try:\n    %s = %s + 1\nexcept NameError:\n    %s = 0\n    %s = %s + 2\nelse:\n    %s = 5\nfinally:\n    %s = %s' % (v, w, v, w, v, w, v, w))
    elif r < 0.45:
        # statements that carry plain lists of names
        g = rng.choice(['global %s' % v, 'global %s, %s' % (v, w) if v != w else 'global %s' % v])
        lines.insert(rng.randint(0, len(lines)), 'def bump_%s():\n    %s\n    %s = %s + 1\n    def inner():\n        nonlocal_free = 1\n        return nonlocal_free\n    return inner()' % (v, g, v, v))
    elif r < 0.6:
        lines.insert(rng.randint(0, len(lines)), 'match %s:\n    case 1:\n        %s = 1\n        %s = %s + 1\n    case _:\n        %s = 2\n        for %s in [3]:\n            %s = %s' % (v, w, v, w, v, w, v, w))
    return '\n'.join(lines) + '\n'


def check_long_bodies(ctx, rng):
    """long straight-line programs: a generalised pattern kept from the LAST few statements has very many partial embeddings in
    the earlier ones - the one that binds the placeholders to the names they replaced must be among the matches returned"""
    from pedal.core.commands import clear_report, contextualize_report
    for n in (12, 18, 22, 26):
        names = ['val%d' % i for i in range(n)]
        src = ''.join('%s = %d\n' % (v, i) for i, v in enumerate(names))
        for k in (2, 3):
            keep = sorted(rng.sample(range(n - 5, n), k)) if rng.random() < 0.5 else list(range(n - k, n))
            d = cc.Derived()
            d.root_kind = 'Module'
            d.steps = ['drop', 'var', 'wild']
            d.var_bindings = {'_p%d_' % j: names[i] for j, i in enumerate(keep)}
            d.exp_bindings = {}
            d.pattern = ''.join('_p%d_ = ___\n' % j for j in range(k))
            clear_report()
            contextualize_report(src)
            ctx.count('long_body_patterns')
            check_pair(ctx, src, ast.parse(src), d, 'long-body')


def gen_arith(rng):
    """data-processing style programs: several variables per expression (operands of + and * that are different names),
    nested subscripts, method calls, accumulation loops, helper functions called from more than one place"""
    vs = ['total', 'price', 'qty', 'tax', 'count', 'rate']
    lines = ['%s = %d' % (v, rng.randint(1, 9)) for v in rng.sample(vs, 4)]
    lines.append("report = {'Station': {'City': 'Chicago', 'Code': 7}, 'Data': {'Rain': 2}}")
    lines.append('rows = [1, 2, 3]')
    for _ in range(rng.randint(4, 9)):
        r = rng.random()
        a, b, c = rng.choice(vs), rng.choice(vs), rng.choice(vs)
        if r < 0.18:
            lines.append('%s = %s %s %s' % (a, b, rng.choice(['+', '*']), c))
        elif r < 0.3:
            lines.append('%s = %s * %s + %s' % (a, b, c, rng.choice(vs)))
        elif r < 0.4:
            lines.append('%s = (%s + %s) * (%s + %d)' % (a, b, c, rng.choice(vs), rng.randint(1, 3)))
        elif r < 0.5:
            lines.append("%s = report[%s][%s] %s %s" % (a, rng.choice(["'Station'", "'Data'"]), rng.choice(["'Code'", "'Rain'"]), rng.choice(['+', '*', '-']), b))
        elif r < 0.54:
            # sums and products in fields that have an empty neighbour (slice bounds, a lone argument)
            lines.append(rng.choice(['part = rows[%s + %s:]' % (a, b), 'part = rows[:%s * %s]' % (a, b), 'part = rows[%s + %s:%s]' % (a, b, c),
                                     'print(%s * %s)' % (a, b), 'part = rows[::%s + %s]' % (a, b)]))
        elif r < 0.58:
            lines.append('print(%s + %s, %s * %s)' % (a, b, b, c))
        elif r < 0.66:
            lines.append('rows.append(%s + %s)' % (a, b))
        elif r < 0.74:
            lines.append('for row in rows:\n    %s = %s + row\n    print(row * %s)' % (a, a, b))
        elif r < 0.8:
            lines.append('%s += %s * %s' % (a, b, c))
        elif r < 0.86:
            lines.append('if %s + %s > %s * 2:\n    print(%s)\nelse:\n    %s = %s + 1' % (a, b, c, a, b, b))
        elif r < 0.93:
            lines.append('def scale(x, y):\n    return x * y + x\nprint(scale(%s, %s))\n%s = scale(%s, 2) + %s\n%s = 2 * scale(%s, %s)' % (a, b, c, a, b, a, c, b))
        else:
            lines.append('while %s < %s + %s:\n    %s = %s + 1' % (a, b, c, a, a))
    return '\n'.join(lines) + '\n'


def check_shared_roles(ctx, rng):
    """one identifier in two roles - a plain variable (assignment target, argument, keyword value) and the name that is called or
    defined - consistently replaced by ONE placeholder: the pattern comes from the program, so a match that binds the placeholder to
    the identifier must be returned (the placeholder lands in two of the matcher's symbol tables; seeded C11-19)"""
    from pedal.core.commands import clear_report, contextualize_report
    templates = [
        ('{f} = print\n{f}({n})\n', '_p0_ = print\n_p0_({n})'),
        ('{f} = print\n{f}({n})\n', '_p0_ = ___\n_p0_(___)'),
        ('def {f}(v):\n    return v\nprint(sorted([2, 1], key={f}))\n{f}({n})\n', 'def _p0_(v):\n    return v\nprint(sorted([2, 1], key=_p0_))'),
        ('def {f}(v):\n    return v\nprint(sorted([2, 1], key={f}))\n{f}({n})\n', 'print(sorted(___, key=_p0_))\n_p0_({n})'),
        ('{f} = len\nprint({f}("ab"), {f})\n', 'print(_p0_("ab"), _p0_)'),
        ('{f} = len\n{g} = {n}\nprint({f}("ab"), {f}, {g})\n', '_p0_ = len\n_p1_ = {n}\nprint(_p0_(___), _p0_, _p1_)'),
        ('def {f}(x):\n    return x + {n}\n{g} = {f}\nprint({g}(3))\n', '_p1_ = ___\nprint(_p1_(3))'),
        ('def {f}(x):\n    return x + {n}\n{g} = {f}\nprint({g}(3), {f}(4))\n', 'def _p0_(x):\n    return x + {n}\n_p1_ = _p0_\nprint(_p1_(3), _p0_(4))'),
        ('{g} = [3, 1]\n{f} = sorted\n{g} = {f}({g})\nprint({f}, {g})\n', '_p1_ = _p0_(_p1_)\nprint(_p0_, _p1_)'),
    ]
    for src_t, pat_t in templates:
        for _ in range(2):
            f, g = rng.sample(['show', 'key', 'cb', 'helper', 'apply', 'fn', 'pick', 'tally'], 2)
            n = rng.randint(0, 9)
            src = src_t.replace('{f}', f).replace('{g}', g).replace('{n}', str(n))
            d = cc.Derived()
            d.root_kind = 'Module'
            d.steps = ['drop', 'var', 'wild']
            d.var_bindings = {ph: name for ph, name in (('_p0_', f), ('_p1_', g)) if ph in pat_t}
            d.exp_bindings = {}
            d.pattern = pat_t.replace('{n}', str(n))
            clear_report()
            contextualize_report(src)
            ctx.count('shared_role_patterns')
            check_pair(ctx, src, ast.parse(src), d, 'one-identifier-in-two-roles')


def run(ctx):
    import os, sys
    sys.setrecursionlimit(20000)     # copy.deepcopy of syntax trees needs several frames per tree level
    from gen.programs import gen_program
    from gen import corpus
    rng = ctx.rng
    repo = os.path.realpath(os.environ.get('VERIF_REPO', '/repo'))
    for i in range(ctx.pick(60, 2500)):
        if ctx.time_left() < 6:
            break
        p = gen_program(rng, static_only=(rng.random() < 0.4))
        check_program(ctx, rng, p.src, 'generated', 6)
        check_program(ctx, rng, gen_small(rng), 'small', 8)
        check_program(ctx, rng, gen_arith(rng), 'arith', 6)
    if ctx.shard % 4 == 2:
        check_long_bodies(ctx, rng)
    if ctx.shard % 4 == 1:
        check_shared_roles(ctx, rng)
    files = corpus.corpus_files(max_bytes=ctx.pick(5000, 15000), repo=repo)
    mine = files[ctx.shard::ctx.nshards]
    rng.shuffle(mine)
    for path in mine[:ctx.pick(4, 80)]:
        if ctx.time_left() < 4:
            break
        text = corpus.read(path)
        if text is None:
            continue
        ctx.count('corpus_files')
        check_program(ctx, rng, text, 'corpus', 5)


def replay(ctx, case):
    from pedal.core.commands import clear_report, contextualize_report
    src = case['src']
    cc.present(ctx, src, case.get('presented', 'plain'))
    d = cc.Derived()
    d.pattern = case['pattern']
    d.steps = case.get('steps', [])
    d.var_bindings = case.get('var_bindings', {})
    d.exp_bindings = {}
    d.root_kind = 'replay'
    # exp bindings are re-derived from positions
    tree = ast.parse(src)
    for ph, pos in (case.get('exp_bindings') or {}).items():
        if pos:
            for n in ast.walk(tree):
                if getattr(n, 'lineno', None) == pos[0] and getattr(n, 'col_offset', None) == pos[1] and isinstance(n, ast.expr):
                    d.exp_bindings[ph] = (n.lineno, n.col_offset, ast.dump(n))
                    break
    check_pair(ctx, src, tree, d, 'replay')
