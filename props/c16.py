"""C16 - the result proxy is transparent for every operation that works on the real value."""
import copy
import math
import contextlib
import io
import math
import operator
import traceback

ID = 'C16'
LEVEL = 'exploration'
TECHNIQUE = 'differential table: operation on the real value vs on the proxy returned by real call()/evaluate(), stdout captured'
LEVEL_TEXT = ('The finite table operation-family x operand-class x proxy placement is enumerated completely in both '
              'tiers: each cell applies the operation to the value student code produced and to the proxy that '
              'call()/evaluate() returned, and compares success, unwrapped value and type, captured stdout and the '
              'NotImplemented sentinel. Thorough adds random operand values per class. After assertions a result still holds the value (identity '
              'and contents); results held when the proxies are switched off keep working.')
LEVEL_NOTE = ('The real value is read back from the proxy (its wrapped object) so both sides see the same object; '
              'operations that mutate their operand are not in the statement and not applied.')
RULE = ('Cells = (operation, proxy placement, left operand class, right operand class). Proxies are obtained from real '
        'call("identity", v) / evaluate(expr) in a sandbox running a student file that defines identity() and classes '
        'with/without reflected dunders and with an attribute literally named "value". Non-trivial: every cell is '
        '(distinct = distinct (op, placement, operand value pair)); a cell where the real operation succeeds AND a cell '
        'where it fails both carry an obligation.')
ASSUMPTIONS = ['equality of results: same type and == (or identical repr for NaN / objects without __eq__)',
               'an exception of any class on the proxy counts as "also fails"']
SHARDS = {'quick': 16, 'thorough': 32}
BUDGET = {'quick': 60, 'thorough': 900}
MIN_NONTRIVIAL = {'quick': 5000, 'thorough': 20000}
EXHAUSTIVE = {'quick': True, 'thorough': True}

STUDENT = '''
def identity(v):
    return v

class Vec:
    def __init__(self, x, y):
        self.x = x
        self.y = y
    def __add__(self, other):
        if isinstance(other, Vec):
            return Vec(self.x + other.x, self.y + other.y)
        if isinstance(other, (int, float)):
            return Vec(self.x + other, self.y + other)
        return NotImplemented
    def __radd__(self, other):
        if isinstance(other, (int, float)):
            return Vec(other + self.x, other + self.y)
        return NotImplemented
    def __mul__(self, other):
        if isinstance(other, (int, float)):
            return Vec(self.x * other, self.y * other)
        return NotImplemented
    def __rmul__(self, other):
        if isinstance(other, (int, float)):
            return Vec(self.x * other, self.y * other)
        return NotImplemented
    def __sub__(self, other):
        if isinstance(other, Vec):
            return Vec(self.x - other.x, self.y - other.y)
        return NotImplemented
    def __neg__(self):
        return Vec(-self.x, -self.y)
    def __abs__(self):
        return abs(self.x) + abs(self.y)
    def __eq__(self, other):
        return isinstance(other, Vec) and (self.x, self.y) == (other.x, other.y)
    def __lt__(self, other):
        if isinstance(other, Vec):
            return (self.x, self.y) < (other.x, other.y)
        return NotImplemented
    def __hash__(self):
        return hash((self.x, self.y))
    def __len__(self):
        return 2
    def __iter__(self):
        return iter((self.x, self.y))
    def __getitem__(self, i):
        return (self.x, self.y)[i]
    def __contains__(self, item):
        return item == self.x or item == self.y
    def __bool__(self):
        return bool(self.x or self.y)
    def __repr__(self):
        return 'Vec(%r, %r)' % (self.x, self.y)
    def __int__(self):
        return int(self.x)
    def __float__(self):
        return float(self.x)
    def __round__(self, n=None):
        return Vec(round(self.x, n), round(self.y, n))

class Money:
    """only forward operators, no reflected ones"""
    def __init__(self, cents):
        self.cents = cents
    def __add__(self, other):
        if isinstance(other, Money):
            return Money(self.cents + other.cents)
        if isinstance(other, int):
            return Money(self.cents + other)
        return NotImplemented
    def __eq__(self, other):
        return isinstance(other, Money) and self.cents == other.cents
    def __hash__(self):
        return hash(self.cents)
    def __repr__(self):
        return 'Money(%d)' % self.cents
    def __format__(self, spec):
        return format(self.cents / 100, spec or '.2f')

class Card:
    """has an attribute literally called value"""
    def __init__(self, value, suit):
        self.value = value
        self.suit = suit
    def __eq__(self, other):
        return isinstance(other, Card) and (self.value, self.suit) == (other.value, other.suit)
    def __hash__(self):
        return hash((self.value, self.suit))
    def __lt__(self, other):
        return self.value < other.value
    def __repr__(self):
        return 'Card(%r, %r)' % (self.value, self.suit)
    def __bool__(self):
        return True
    def __len__(self):
        return 3

class Plain:
    pass

class Grumpy:
    """conversions and protocols that fail: they must fail on the result of a call just as on the object itself"""
    def __repr__(self):
        raise RuntimeError('no repr')
    def __str__(self):
        raise RuntimeError('no str')
    def __format__(self, spec):
        raise RuntimeError('no format')
    def __bool__(self):
        raise RuntimeError('no truth value')
    def __len__(self):
        raise RuntimeError('no len')
    def __hash__(self):
        raise RuntimeError('no hash')
    def __iter__(self):
        raise RuntimeError('no iteration')
    def __int__(self):
        raise RuntimeError('no int')
    def __float__(self):
        raise RuntimeError('no float')
    def __eq__(self, other):
        raise RuntimeError('no comparison')
    def __neg__(self):
        raise RuntimeError('no negation')
    def __getitem__(self, key):
        raise RuntimeError('no indexing')
    def __contains__(self, item):
        raise RuntimeError('no membership')
    def __add__(self, other):
        raise RuntimeError('no addition')
    __radd__ = __add__

grumpy_instance = Grumpy()

class Odd:
    """looking up an attribute it does not have fails with something other than AttributeError"""
    def __getattr__(self, name):
        raise KeyError(name)
    def __repr__(self):
        return 'Odd()'

odd_instance = Odd()

plain_instance = Plain()

def boom():
    return 1 / 0
'''

# (label, python expression evaluated in the student namespace)
VALUES = [
    ('int', '0'), ('int', '1'), ('int', '-3'), ('int', '7'), ('int', '2 ** 70'), ('int', '2'),
    ('float', '0.0'), ('float', '2.5'), ('float', '-1.5'), ('float', '17.5'), ('float', 'float("inf")'), ('float', 'float("nan")'),
    ('bool', 'True'), ('bool', 'False'),
    ('str', "''"), ('str', "'abc'"), ('str', "'%d items'"), ('str', "'b'"), ('str', "'12'"),
    ('list', '[]'), ('list', '[1, 2, 3]'), ('list', "['b', 'a']"), ('list', '[[1], [2]]'),
    ('tuple', '()'), ('tuple', '(1, 2)'), ('tuple', "(1, 'a')"),
    ('dict', '{}'), ('dict', "{'a': 1, 'b': 2}"), ('dict', '{1: 2}'),
    ('set', 'set()'), ('set', '{1, 2, 3}'), ('set', '{2, 9}'),
    ('NoneType', 'None'), ('complex', '(1+2j)'), ('complex', '0j'),
    ('Vec', 'Vec(1, 2)'), ('Vec', 'Vec(0, 0)'), ('Vec', 'Vec(1.5, -2)'),
    ('Money', 'Money(150)'), ('Card', 'Card(0, "hearts")'), ('Card', 'Card(12, "spades")'), ('Plain', 'plain_instance'),
    ('range', 'range(3)'), ('bytes', "b'ab'"), ('frozenset', 'frozenset({1})'),
    ('type', 'Vec'), ('type', 'int'), ('type', 'Plain'),
    ('Odd', 'odd_instance'), ('Grumpy', 'grumpy_instance'), ('list', '[grumpy_instance]'), ('tuple', '(1, grumpy_instance)'), ('dict', "{'g': grumpy_instance}"),
]


def _pow3(a, b):
    return pow(a, b, 5)


def _contains(a, b):
    return operator.contains(b, a)     # a in b  (b is the container)


BINARY = [
    ('add', operator.add), ('sub', operator.sub), ('mul', operator.mul), ('truediv', operator.truediv),
    ('floordiv', operator.floordiv), ('mod', operator.mod), ('pow', operator.pow), ('divmod', divmod),
    ('lshift', operator.lshift), ('rshift', operator.rshift), ('and', operator.and_), ('or', operator.or_),
    ('xor', operator.xor), ('matmul', operator.matmul), ('pow3', _pow3),
    ('lt', operator.lt), ('le', operator.le), ('gt', operator.gt), ('ge', operator.ge), ('eq', operator.eq),
    ('ne', operator.ne),
    ('getitem', operator.getitem),      # container[key]: proxy placement L = proxied container
    ('in', _contains),                  # item in container: placement R = proxied container
    # augmented assignment through a name bound to the result (r += x): the same value as on the real thing, and every other
    # reference to that result still answers for the value the student's code produced
    ('iadd', operator.iadd), ('isub', operator.isub), ('imul', operator.imul), ('ifloordiv', operator.ifloordiv), ('ior', operator.ior), ('iand', operator.iand),
    ('isinstance-of-type', None),
    ('isinstance-of-class', None),      # isinstance(x, C) where the class C itself is what student code produced (R: C proxied; B: both)
    ('round-n', lambda a, b: round(a, b)),
]

UNARY = [
    ('neg', operator.neg), ('pos', operator.pos), ('invert', operator.invert), ('abs', abs),
    ('bool', bool), ('not', operator.not_), ('hash', hash), ('len', len), ('pedal-len', 'PEDAL_LEN'),
    ('pedal-len-of-unwrapped', 'PEDAL_LEN_RAW'),
    ('iter-list', lambda v: list(iter(v))), ('reversed-list', lambda v: list(reversed(v))),
    ('for-loop-sum', lambda v: [e for e in v]), ('sorted', lambda v: sorted(v)),
    ('str', str), ('repr', repr), ('format-empty', lambda v: format(v, '')), ('fstring', lambda v: f'{v}'),
    ('format-width', lambda v: format(v, '>8')), ('format-float', lambda v: format(v, '.2f')),
    ('percent-format', lambda v: '%s|%r' % (v, v)),
    ('int', int), ('float', float), ('complex', complex), ('round', round), ('round-1', lambda v: round(v, 1)),
    ('trunc', math.trunc), ('floor', math.floor), ('ceil', math.ceil), ('index', operator.index),
    ('getitem-0', lambda v: v[0]), ('getitem-neg1', lambda v: v[-1]), ('slice', lambda v: v[0:2]),
    ('isinstance-own-type', 'ISINSTANCE_OWN'), ('isinstance-other', 'ISINSTANCE_OTHER'),
    ('truth-in-if', lambda v: 'yes' if v else 'no'), ('any', lambda v: any(v)), ('sum', lambda v: sum(v)),
    ('max', lambda v: max(v)), ('tuple-of', lambda v: tuple(v)), ('set-of', lambda v: set(v)), ('dict-keys', lambda v: list(v.keys())),
    ('str-upper-method', lambda v: v.upper()), ('enumerate', lambda v: list(enumerate(v))),
    ('unpack', lambda v: (lambda a, b: (a, b))(*v)), ('bin', bin), ('chr', chr), ('range-of', lambda v: list(range(v))),
    ('list-index-by', lambda v: [10, 20, 30][v]), ('str-mul-by', lambda v: 'ab' * v),
]


def is_proxy(x):
    from pedal.sandbox.result import is_sandbox_result
    try:
        return is_sandbox_result(x)
    except Exception:
        return False


def unwrap(x):
    if is_proxy(x):
        return object.__getattribute__(x, 'value')
    return x


def run_op(fn, *args):
    buf = io.StringIO()
    try:
        with contextlib.redirect_stdout(buf):
            res = fn(*args)
        return ('ok', res, buf.getvalue())
    except RecursionError as e:
        return ('err', e, buf.getvalue())
    except Exception as e:
        return ('err', e, buf.getvalue())


def same(a, b):
    if type(a) is not type(b):
        return False
    try:
        if a == b:
            return True
    except Exception:
        pass
    try:
        return repr(a) == repr(b)
    except Exception:
        return a is b


def tname(v):
    return type(v).__name__


class Harness:
    def __init__(self):
        from pedal.core.commands import contextualize_report
        from pedal.sandbox import commands as sbx
        self.sbx = sbx
        contextualize_report(STUDENT)
        sbx.run()
        if sbx.get_exception() is not None:
            raise RuntimeError('student file failed: %r' % sbx.get_exception())
        self.cache = {}
        self.made = 0
        self.ref_ns = {'__name__': '__main__'}
        exec(compile(STUDENT, 'answer.py', 'exec'), self.ref_ns)
        self.mismatch = None

    def proxy(self, expr, how):
        """fresh proxy for the expression, via evaluate or call('identity', <value>)"""
        if (expr, how) in self.cache:
            return self.cache[(expr, how)]
        self.made += 1
        if self.made % 3 == 1:
            # history: the previous execution in this sandbox failed (a proxy must still carry the new value)
            self.sbx.call('boom')
        elif self.made % 3 == 2:
            self.sbx.call('identity', 'previous result')
        p = self._make(expr, how)
        # the wrapped object must be the value the expression has in plain CPython
        try:
            want = eval(expr, self.ref_ns)
            got = unwrap(p)
            if 'grumpy' in expr:
                same = is_proxy(p) and type(got).__name__ == type(want).__name__     # (these values have no repr to compare)
                want_text = got_text = '<a value whose repr raises>'
            else:
                want_text, got_text = repr(want), repr(got)
                same = is_proxy(p) and type(got).__name__ == type(want).__name__ and _noaddr(got_text) == _noaddr(want_text)
            if not same:
                self.mismatch = (expr, how, ['after-failed-call', 'after-ok-call', 'first'][self.made % 3 - 1],
                                 want_text[:100], got_text[:100])
        except Exception as e:
            self.mismatch = (expr, how, 'reference', repr(e), '')
        self.cache[(expr, how)] = p
        return p

    def _make(self, expr, how):
        if how == 'evaluate':
            p = self.sbx.evaluate(expr)
        else:
            p = self.sbx.call('identity', args_locals=[expr])
        self.cache[(expr, how)] = p
        return p


def compare(ctx, key_base, case, real, prox):
    """real / prox are run_op results. Records violations; returns nothing."""
    rk, rv, rout = real
    pk, pv, pout = prox
    if pout:
        ctx.violation(key_base + '|writes-stdout', case, 'proxy operation printed %r' % pout[:200])
    if rk == 'ok':
        if pk != 'ok':
            ctx.violation(key_base + '|raises-%s' % type(pv).__name__, case,
                          'real value gives %r, proxy raises %r' % (_short(rv), pv))
            return
        u = unwrap(pv)
        if u is NotImplemented or rv is NotImplemented:
            if u is NotImplemented and rv is not NotImplemented:
                ctx.violation(key_base + '|returns-NotImplemented', case, 'real result %r' % _short(rv))
            return
        if not same(rv, u):
            sym = 'wrong-type-%s' % tname(u) if type(rv) is not type(u) else 'wrong-value'
            if is_proxy(u):
                sym = 'doubly-wrapped'
            ctx.violation(key_base + '|' + sym, case, 'real result %s %r, proxy result %s %r (wrapped=%s)' %
                          (tname(rv), _short(rv), tname(u), _short(u), is_proxy(pv)))
    else:
        if pk == 'ok':
            u = unwrap(pv)
            ctx.violation(key_base + '|should-fail-%s' % type(rv).__name__, case,
                          'real value raises %r, proxy returns %r' % (rv, _short(u)))


def _noaddr(text):
    import re
    return re.sub(r'0x[0-9a-fA-F]+', '0x', text)


def _too_big(a, b):
    def mag(x):
        return abs(x) if isinstance(x, int) and not isinstance(x, bool) else 0
    return max(mag(a), mag(b)) > 10 ** 6


def _short(v):
    try:
        r = repr(v)
    except Exception as e:
        r = '<repr failed %r>' % e
    return r[:120]


def run(ctx):
    cells(ctx, VALUES, ctx.shard, ctx.nshards)
    if ctx.shard % 8 == 0:
        check_results_survive_assertions(ctx, Harness())


def cells(ctx, values, shard, nshards, only=None):
    from pedal.sandbox import result as result_mod
    h = Harness()
    sbx = h.sbx
    n = 0
    # ---------------- unary -------------------------------------------------
    for vi, (vt, vexpr) in enumerate(values):
        for oi, (oname, ofn) in enumerate(UNARY):
            n += 1
            if n % nshards != shard:
                continue
            if only and only != ('U', oname, vexpr):
                continue
            how = 'evaluate' if (vi + oi) % 2 else 'call'
            p = h.proxy(vexpr, how)
            if h.mismatch:
                ctx.violation('C16|proxy-wraps-wrong-value|%s|%s' % (h.mismatch[1], h.mismatch[2]),
                              {'kind': 'U', 'op': oname, 'value': vexpr, 'how': how}, h.mismatch)
                h.mismatch = None
            if not is_proxy(p):
                ctx.inconclusive('call()/evaluate() did not return a proxy for %s' % vexpr)
                return
            real_v = unwrap(p)
            if ofn == 'PEDAL_LEN':
                f_real, f_prox = len, result_mod.len
            elif ofn == 'PEDAL_LEN_RAW':
                # the replacement len() must also behave as len() for an instructor's plain values
                f_real, f_prox = len, (lambda v: result_mod.len(unwrap(v)))
            elif ofn == 'ISINSTANCE_OWN':
                f_real = f_prox = (lambda v, T=type(real_v): isinstance(v, T))
            elif ofn == 'ISINSTANCE_OTHER':
                f_real = f_prox = (lambda v: [isinstance(v, T) for T in (int, float, str, list, tuple, dict, set, bool, type(None), object)])
            else:
                f_real = f_prox = ofn
            real = run_op(f_real, real_v)
            # fresh proxy for the proxy side (the real side may have consumed iterators)
            prox = run_op(f_prox, p)
            case = {'kind': 'U', 'op': oname, 'value': vexpr, 'how': how}
            key = 'C16|%s|P|%s' % (oname, vt)
            if vt == 'Card':
                key += '|operand-has-attribute-named-value'
            ctx.case('U:%s:%s' % (oname, vexpr))
            ctx.seen('operations', oname)
            ctx.count('cells_real_ok' if real[0] == 'ok' else 'cells_real_fails')
            compare(ctx, key, case, real, prox)
    # ---------------- binary ------------------------------------------------
    for li, (lt, lexpr) in enumerate(values):
        for ri, (rt, rexpr) in enumerate(values):
            for oi, (oname, ofn) in enumerate(BINARY):
                n += 1
                if n % nshards != shard:
                    continue
                how = 'evaluate' if (li + ri + oi) % 2 else 'call'
                pl = h.proxy(lexpr, how)
                pr = h.proxy(rexpr, how)
                if h.mismatch:
                    ctx.violation('C16|proxy-wraps-wrong-value|%s|%s' % (h.mismatch[1], h.mismatch[2]),
                                  {'kind': 'B', 'op': oname, 'placement': 'L', 'left': lexpr, 'right': rexpr, 'how': how}, h.mismatch)
                    h.mismatch = None
                lv, rv = unwrap(pl), unwrap(pr)
                if oname == 'isinstance-of-type':
                    fn = lambda a, b: isinstance(a, type(b))
                    placements = [('L', pl, rv)]
                elif oname == 'isinstance-of-class':
                    if not isinstance(rv, type):
                        continue
                    fn = lambda a, b: isinstance(a, b)
                    placements = [('R', lv, pr), ('B', pl, pr)]
                elif oname == 'round-n':
                    if rt not in ('int', 'NoneType', 'bool'):
                        continue
                    fn = ofn
                    # the statement lists round() of the proxied value; a proxied ndigits is not claimed
                    placements = [('L', pl, rv)]
                    ctx.count('cells_outside_statement_skipped', 2)
                elif oname == 'in':
                    fn = ofn
                    # "membership in the proxied container": the container (right operand) is the proxy
                    placements = [('R', lv, pr), ('B', pl, pr)]
                    ctx.count('cells_outside_statement_skipped', 1)
                elif oname in ('iadd', 'isub', 'imul', 'ifloordiv', 'ior', 'iand'):
                    if type(lv) not in (int, float, str, tuple, bool, bytes, frozenset, complex, type(None)):
                        continue        # (on a mutable left operand the real operation changes the operand itself, for every later cell)
                    fn = ofn
                    placements = [('L', pl, rv), ('B', pl, pr)]
                else:
                    fn = ofn
                    placements = [('L', pl, rv), ('R', lv, pr), ('B', pl, pr)]
                if only and (only[0] != 'B' or only[1] != oname or only[3] != lexpr or only[4] != rexpr):
                    continue
                if oname in ('pow', 'lshift', 'mul') and _too_big(lv, rv):
                    # results with millions of digits: resource exhaustion is outside the statement
                    ctx.count('cells_skipped_huge_result')
                    continue
                real = run_op(fn, lv, rv)
                if real[0] == 'err' and isinstance(real[1], (OverflowError, MemoryError)):
                    continue
                if oname in ('pow', 'lshift', 'mul') and real[0] == 'ok' and isinstance(real[1], int) and abs(real[1]) > 10 ** 400:
                    continue
                for plc, a, b in placements:
                    if only and only[2] != plc:
                        continue
                    prox = run_op(fn, a, b)
                    case = {'kind': 'B', 'op': oname, 'placement': plc, 'left': lexpr, 'right': rexpr, 'how': how}
                    key = 'C16|%s|%s|%s,%s' % (oname, plc, lt, rt)
                    if 'Card' in (lt, rt):
                        key += '|operand-has-attribute-named-value'
                    ctx.case('B:%s:%s:%s:%s' % (oname, plc, lexpr, rexpr))
                    ctx.seen('operations', oname)
                    ctx.seen('placements', plc)
                    ctx.count('cells_real_ok' if real[0] == 'ok' else 'cells_real_fails')
                    compare(ctx, key, case, real, prox)
                    # ---- the results that were operands still are what the student's code produced ----
                    for side, px, was in (('left', pl, lv), ('right', pr, rv)):
                        if type(was) in (int, float, str, tuple, bool, bytes, frozenset, complex, type(None), range) and unwrap(px) is not was:
                            ctx.violation('C16|%s|%s|operand-result-no-longer-holds-its-value' % (oname, plc), dict(case, operand=side),
                                          'after the operation the %s result holds %s, it held %s' % (side, _short(unwrap(px)), _short(was)))
                            h.cache.pop((lexpr if side == 'left' else rexpr, how), None)
                    if ctx.evaluations % 4999 == 0:
                        ctx.sample({'case': case, 'real': [real[0], _short(real[1])], 'proxy': [prox[0], _short(unwrap(prox[1]))]})
    ctx.seen('operand_classes', 'see VALUES')
    for vt, _ in values:
        ctx.seen('operand_classes', vt)


def check_results_survive_assertions(ctx, h):
    """a result handed to the instructor's assertions is afterwards still the value the student's code produced (a range is a
    range, an iterator is that iterator)"""
    import pedal.assertions.runtime as rt
    exprs = ['range(0, 6, 2)', 'range(3)', '(1, 2)', "'abc'", '[1, 2, 3]', '{1, 2}', 'iter([1, 2])', 'map(abs, [1, -2])', 'zip([1], [2])', 'reversed([1, 2])', '7']
    for expr in exprs:
        for how in ('evaluate', 'call'):
            try:
                p = h._make(expr, how)
            except Exception:
                continue
            was = unwrap(p)
            # (what a container held before, where that can be told without using it up)
            held = copy.copy(was) if isinstance(was, (list, set, dict, tuple, str, range, frozenset)) else None
            case = {'kind': 'A', 'value': expr, 'how': how}
            for aname, args in (('assert_equal', (p, [0, 2, 4])), ('assert_in', (2, p)), ('assert_length_equal', (p, 3)), ('assert_not_equal', (p, 5)), ('assert_is_instance', (p, list)),
                                ('assert_equal', (p, {1.0000001, 2})), ('assert_equal', (p, {1, 3})), ('assert_not_equal', (p, {2, 1})), ('assert_equal', ({2, 1.0000001}, p)),
                                ('assert_equal', (p, [1, 2, 3.0000001])), ('assert_equal', (p, (1, 2.0000001)))):
                try:
                    getattr(rt, aname)(*args)
                except Exception:
                    pass
                ctx.count('results_checked_after_an_assertion')
                ctx.case('A:%s:%s:%s:%r' % (expr, how, aname, args[-1] if args[0] is p else args[0]))
                if unwrap(p) is not was:
                    ctx.violation('C16|result-changed-by-an-assertion|%s|%s' % (aname, type(was).__name__), dict(case, assertion=aname),
                                  'the result held %s; after %s it holds %s' % (_short(was), aname, _short(unwrap(p))))
                    break
                if held is not None and not (unwrap(p) == held and len(unwrap(p)) == len(held)):
                    ctx.violation('C16|result-contents-changed-by-an-assertion|%s|%s' % (aname, type(was).__name__), dict(case, assertion=aname),
                                  'the result held %s; after %s%r it holds %s' % (_short(held), aname, tuple(_short(a) for a in args), _short(unwrap(p))))
                    break
    # ---- the grader switches the proxies off for later results (result_proxy_class = None): what she already holds stays what it was
    from pedal.sandbox import commands as sbx
    sandbox = sbx.get_sandbox()
    for expr, ops in (('7', [lambda v: v + 1, lambda v: -v, lambda v: v * 2, lambda v: v // 2, lambda v: v & 3, lambda v: round(v), lambda v: 3 - v, lambda v: abs(v)]),
                      ('[1, 2, 3]', [lambda v: v[0], lambda v: v + [4], lambda v: v * 2, lambda v: v[1:], lambda v: len(v)]),
                      ("'abc'", [lambda v: v + 'd', lambda v: v[0], lambda v: v * 2, lambda v: v.upper()]),
                      ('2.5', [lambda v: v * 2, lambda v: math.floor(v), lambda v: math.ceil(v), lambda v: round(v, 1), lambda v: -v])):
        for how in ('evaluate', 'call'):
            saved = sandbox.result_proxy_class
            try:
                p = h._make(expr, how)
                plain = eval(expr)
                sandbox.result_proxy_class = None
                for i, op in enumerate(ops):
                    ctx.count('operations_on_earlier_results_after_proxies_were_switched_off')
                    ctx.case('P:%s:%s:%d' % (expr, how, i))
                    want = op(plain)
                    try:
                        got = unwrap(op(p))
                    except Exception as e:
                        ctx.violation('C16|operation-on-an-earlier-result-raises-after-proxies-were-switched-off|%s|%s' % (type(e).__name__, type(plain).__name__),
                                      {'kind': 'A', 'value': expr, 'how': how, 'operation': i}, '%s: %s (plain value gives %r)' % (type(e).__name__, e, want))
                        break
                    if got != want or type(got) is not type(want):
                        ctx.violation('C16|operation-on-an-earlier-result-differs-after-proxies-were-switched-off|%s' % type(plain).__name__,
                                      {'kind': 'A', 'value': expr, 'how': how, 'operation': i}, 'plain %r, through the result %r' % (want, got))
                        break
            finally:
                sandbox.result_proxy_class = saved


def replay(ctx, case):
    if case['kind'] == 'A':
        return check_results_survive_assertions(ctx, Harness())
    if case['kind'] == 'U':
        only = ('U', case['op'], case['value'])
    else:
        only = ('B', case['op'], case['placement'], case['left'], case['right'])
    cells(ctx, VALUES, 0, 1, only=only)
