"""C17 - sections split a submission losslessly and report whole-file line numbers."""
import re
import traceback
import unicodedata  # noqa: F401

ID = 'C17'
LEVEL = 'exploration'
TECHNIQUE = 'planted-diagnostic accounting over section histories: files assembled from chunks with diagnostics at known whole-file lines; every feedback created while a section is active must carry the planted line; split/concatenation and main_code checked after every operation'
LEVEL_TEXT = ('Held on the histories observed: files are assembled from 1-6 chunks and marker lines (default or custom whole-line '
              'pattern; markers adjacent, on the first/last line, file without trailing newline), each chunk carrying at most one '
              'planted diagnostic at a known whole-file line (syntax error, TIFA uninitialised read, runtime error inside nested '
              'calls). Random operation sequences (separate independent/cumulative, verify/tifa/run/call per section, next_section '
              'also past the end, stop_sections/resolve) run on the real tools; the monitor checks concatenation, the code presented '
              'per section, the not-enough-sections feedback, the location line and every "Line N" of the traceback text of each '
              'feedback against the planted whole-file lines, and that main_code is the original afterwards.')
LEVEL_NOTE = ('Planted lines are found by searching the whole file for a unique token, so the oracle never uses pedal\'s own offsets. '
              'Only whole-line single-group patterns are used (the only form for which separators concatenate back).')
RULE = ('File = chunks x markers x pattern; history = mode x per-section tool subset x past-the-end x ending. Non-trivial: a '
        'diagnostic in section >= 1 was produced and its line compared, or a past-the-end request was made. Distinct = distinct '
        'file+history.')
ASSUMPTIONS = ['a planted token occurs exactly once in the file, so its line is unambiguous']
SHARDS = {'quick': 16, 'thorough': 32}
BUDGET = {'quick': 40, 'thorough': 900}
MIN_NONTRIVIAL = {'quick': 300, 'thorough': 10000}
REQUIRED_COUNTERS = {'quick': ['lines_compared', 'sections_presented', 'past_the_end_requests'],
                     'thorough': ['lines_compared', 'sections_presented', 'past_the_end_requests']}

PATTERNS = [
    (None, '##### Part %d'),                                     # default pattern
    (r'^(# --- section .* ---)$', '# --- section %d ---'),
    (r'^(#%% .*)$', '#%%%% cell %d'),
    (r'^(##### Part .+)$', '##### Part %d'),
    (r'^(#---- Section \d+\n)', '#---- Section %d'),           # the marker consumes its own newline
    (r'^(# === \d+ ===\r?\n)', '# === %d ==='),
]


def gen_chunk(rng, k, kind, lead_blank):
    """-> (text, planted) ; planted: dict kind -> token"""
    lines = []
    for _ in range(rng.randint(0, 3)):
        lines.append(rng.choice(['value_%d = %d' % (k, rng.randint(0, 9)), '# a comment', '', 'print("chunk %d")' % k,
                                 'items_%d = [1, 2, 3]' % k, 'text_%d = """two\nlines"""' % k,
                                 '# page\x0cbreak in a comment', 'sep_%d = "\x1c\x1d\x1e"' % k, 'note_%d = "\u2028 and \x85"' % k,
                                 '# vertical\x0btab']))
    planted = {}
    if kind == 'syntax':
        lines.append('broken_%d = = %d' % (k, k))
        planted = {'kind': 'syntax', 'token': 'broken_%d = =' % k}
        for _ in range(rng.randint(0, 2)):
            lines.append('after_%d = 1' % k)
    elif kind == 'tifa':
        lines.append('print(never_set_%d)' % k)
        planted = {'kind': 'tifa', 'token': 'print(never_set_%d)' % k, 'name': 'never_set_%d' % k}
    elif kind == 'tifa-loop':
        which = rng.choice(['empty', 'nonlist'])
        if which == 'empty':
            lines += ['empty_%d = []' % k, 'for item_%d in empty_%d:  # loop_%d' % (k, k, k), '    print(item_%d)' % k]
            label = 'iterating_over_empty_list'
        else:
            lines += ['number_%d = 5' % k, 'for item_%d in number_%d:  # loop_%d' % (k, k, k), '    print(item_%d)' % k]
            label = 'iterating_over_non_list'
        planted = {'kind': 'tifa-loop', 'token': '# loop_%d' % k, 'label': label}
    elif kind == 'runtime' and rng.random() < 0.4:
        # the error surfaces below the student's line, in a frame that is not the student's (a library, pedal's replacement of open)
        how = rng.choice(["import json\nparsed_%d = json.loads('{')  # boom_%d" % (k, k), "handle_%d = open('no_such_file_%d.txt')  # boom_%d" % (k, k, k),
                          "import json\ndef load_%d():\n    return json.loads('[1,')  # boom_%d\nload_%d()  # call_%d" % (k, k, k, k)])
        lines += how.split('\n')
        planted = {'kind': 'runtime', 'token': '# boom_%d' % k, 'frames': ['# boom_%d' % k] + (['# call_%d' % k] if 'call_' in how else []), 'in_library': True}
    elif kind == 'runtime':
        lines += ['def outer_%d(a):' % k, '    return inner_%d(a)' % k, '', 'def inner_%d(a):' % k, '    total = 10',
                  '    return total // a  # boom_%d' % k, 'started_%d = True' % k, 'outer_%d(0)' % k]
        planted = {'kind': 'runtime', 'token': '# boom_%d' % k, 'frames': ['# boom_%d' % k, 'return inner_%d(a)' % k, 'outer_%d(0)' % k]}
    elif kind == 'callable':
        lines += ['def fail_%d(n):' % k, '    data = [1, 2]', '    return data[n]  # idx_%d' % k]
        planted = {'kind': 'callable', 'token': '# idx_%d' % k, 'fname': 'fail_%d' % k, 'frames': ['# idx_%d' % k]}
    for _ in range(rng.randint(0, 2)):
        lines.append(rng.choice(['', 'tail_%d = 0' % k, '# end of chunk %d' % k]))
    return '\n'.join(lines), planted


def gen_file(rng):
    n_markers = rng.choice([0, 1, 1, 2, 2, 3, 4, 5])
    pat, marker_fmt = rng.choice(PATTERNS)
    kinds = []
    for k in range(n_markers + 1):
        kinds.append(rng.choice(['clean', 'clean', 'syntax', 'tifa', 'tifa-loop', 'runtime', 'runtime', 'callable', 'empty']))
    chunks = []
    planted = []
    for k, kind in enumerate(kinds):
        if kind == 'empty':
            chunks.append('')
            planted.append({})
        else:
            t, p = gen_chunk(rng, k, kind, k > 0)
            chunks.append(t)
            planted.append(p)
    # assemble: chunk0 \n marker1 \n chunk1 ...  ; the newline placement is part of the workload
    parts = []
    for k, c in enumerate(chunks):
        if k == 0:
            parts.append(c + ('\n' if c and n_markers else ''))
        else:
            parts.append(marker_fmt % k)
            body = c
            last = k == n_markers
            if body or not last or rng.random() < 0.5:
                parts.append('\n' + body + ('' if last else '\n'))
    text = ''.join(parts)
    if rng.random() < 0.6 and not text.endswith('\n'):
        text += '\n'
    if rng.random() < 0.15:
        # a file saved with Windows line ends (kept only when the marker pattern still finds every marker: a pattern that ends
        # in a literal before `$` does not match a line ending in \r, and the planted diagnostics are recorded per chunk)
        crlf = text.replace('\r\n', '\n').replace('\n', '\r\n')
        if len(expected_split(crlf, pat)) == len(expected_split(text, pat)):
            text = crlf
    return {'text': text, 'pattern': pat, 'n_markers': n_markers, 'kinds': kinds, 'planted': planted}


def line_of(text, token):
    idxs = [i + 1 for i, l in enumerate(text.split('\n')) if token in l]
    return idxs[0] if len(idxs) == 1 else None


def expected_split(text, pattern):
    pat = pattern or r'^(##### Part .+)$'
    return re.split(pat, text, flags=re.MULTILINE)


def gen_history(rng, f):
    n_sections = f['n_markers'] + 1
    ops = []
    mode = rng.choice(['independent', 'cumulative'])
    entry = rng.choice(['separate', 'separate', 'separate', 'set_source'])
    for k in range(n_sections):
        tools = [t for t in ('verify', 'tifa', 'run', 'call') if rng.random() < 0.75]
        ops.append(tools)
    past = rng.choice([0, 0, 1, 2])
    ending = rng.choice(['stop_sections', 'resolve', 'stop_sections'])
    # the grading script made a (passing) run-time assertion before it separated the file: the assertion tool then already listens
    # to the events the sections use
    before = 'assertion-before-separating' if entry == 'separate' and rng.random() < 0.3 else None
    # the grading script looks at another text for a moment (set_source of a scratch file) and comes back with restore_code(),
    # inside a section: what is reported afterwards still carries whole-file lines (seeded C17-19)
    # (set_source() of a text without sections drops the tool's list of sections - that is what its 'sections=False' says - so the
    # detour is made in the last section only, and only in histories that do not ask for sections past the end afterwards)
    detours = [k == n_sections - 1 and past == 0 and rng.random() < 0.4 for k in range(n_sections)]
    return {'mode': mode, 'entry': entry, 'ops': ops, 'past': past, 'ending': ending, 'before': before, 'detours': detours}


def check(ctx, case):
    from pedal.core.commands import clear_report, contextualize_report
    from pedal.core.report import MAIN_REPORT
    from pedal.source import verify, separate_into_sections, next_section, stop_sections, set_source
    from pedal.source.constants import TOOL_NAME as SRC
    from pedal.tifa import tifa_analysis
    from pedal.sandbox import commands as sbx
    from pedal.resolvers import simple
    f, h = case['file'], case['history']
    text = f['text']
    independent = h['mode'] == 'independent'
    want_sections = expected_split(text, f['pattern'])
    chunks = want_sections[0::2]
    key_mode = h['mode'] + ('|via-set_source' if h['entry'] == 'set_source' else '')
    try:
        clear_report()
        if h['entry'] == 'set_source':
            set_source(text, sections=f['pattern'] or True, independent=independent)
        else:
            contextualize_report(text)
            if h.get('before') == 'assertion-before-separating':
                # (an organised check is declared - which is what makes the assertion tool hook the resolve event - and a plain
                # assertion made)
                from pedal.assertions.runtime import assert_equal
                from pedal.assertions.organizers import phase

                @phase('basics')
                def check_basics():
                    return True
                assert_equal(1, 1)
                ctx.count('histories_with_an_assertion_before_separating')
            if f['pattern'] is None:
                separate_into_sections(independent=independent)
            else:
                separate_into_sections(pattern=f['pattern'], independent=independent)
    except Exception as e:
        ctx.violation('C17|separate-raised|%s' % type(e).__name__, case, traceback.format_exc()[-600:])
        return
    report = MAIN_REPORT
    got_sections = report[SRC]['sections']
    if ''.join(got_sections) != text:
        ctx.violation('C17|sections-do-not-concatenate-back', case, 'joined sections differ from the file')
        return
    if got_sections[0::2] != chunks:
        ctx.violation('C17|chunks-differ', case, {'want': chunks, 'got': got_sections[0::2]})
        return
    ctx.count('splits_checked')
    nontrivial = False
    sub = report.submission
    n_sections = len(chunks)
    defined_earlier = []          # functions that a run() of an earlier section left in the sandbox
    organised = []                # (section, its text, what the organised check declared there saw when it finally ran)

    def organised_checks_saw_their_section():
        for sec, want_text, saw in organised:
            for seen_text, seen_offsets in saw:
                ctx.count('organised_checks_run_at_the_section_change')
                if seen_text != want_text:
                    ctx.violation('C17|organised-check-sees-other-code-than-its-section|%s' % key_mode, dict(case, upto=sec),
                                  'declared while section %d was active; when it ran the main code was %r' % (sec, seen_text[-120:]))
                    return False
        del organised[:]
        return True
    for k in range(n_sections + h['past']):
        if k > 0:
            n_before = len(report.feedback) + len(report.ignored_feedback)
            try:
                next_section()
            except Exception as e:
                fam = 'past-the-end' if k >= n_sections else 'in-range'
                ctx.violation('C17|next_section-raised|%s|%s' % (type(e).__name__, fam), dict(case, upto=k), traceback.format_exc()[-500:])
                return
            if not organised_checks_saw_their_section():
                return
            if k >= n_sections:
                ctx.count('past_the_end_requests')
                nontrivial = True
                new = (report.feedback + report.ignored_feedback)
                if not any(fb.label == 'not_enough_sections' for fb in new):
                    ctx.violation('C17|past-the-end-without-not_enough_sections', dict(case, upto=k), [fb.label for fb in report.feedback][-5:])
                continue
        # ---- what the tools are shown ------------------------------------------------------------------
        want_code = chunks[k] if independent else ''.join(want_sections[:2 * k + 1])
        ctx.count('sections_presented')
        if h.get('before') == 'assertion-before-separating' and k < n_sections:
            # a check organised as a phase, declared for THIS section: the assertion tool runs it when the grader moves on
            from pedal.assertions.organizers import phase
            saw = []

            @phase('about_section_%d' % k)
            def about_this_section(saw=saw):
                saw.append((report.submission.main_code, dict(report.submission.line_offsets)))
                return True
            organised.append((k, want_code, saw))
        if sub.main_code != want_code:
            ctx.violation('C17|section-code-differs|%s' % key_mode, dict(case, upto=k), {'want': want_code[-200:], 'got': sub.main_code[-200:]})
            return
        planted = f['planted'][k] if k < len(f['planted']) else {}
        before_lines = ''.join(want_sections[:2 * k]).count('\n') if independent else 0
        parses = True
        try:
            compile(want_code, 'answer.py', 'exec')
        except SyntaxError:
            parses = False
        tools = h['ops'][k] if k < len(h['ops']) else []
        if parses and k < len(h.get('detours') or []) and h['detours'][k]:
            from pedal.source.source import restore_code
            try:
                set_source("scratch_value = 1\nprint(scratch_value)\n", filename='scratch.py')
                restore_code()
            except Exception as e:
                ctx.violation('C17|tool-raised|set_source-then-restore_code|%s' % type(e).__name__, dict(case, upto=k), traceback.format_exc()[-500:])
                return
            ctx.count('detours_through_another_text')
            if report.submission.main_code != want_code:
                ctx.violation('C17|section-text-wrong|after-restore_code', dict(case, upto=k),
                              'after set_source(scratch) and restore_code() the code is %r, the section is %r' % (report.submission.main_code[:200], want_code[:200]))
                return
        for tool in tools:
            n0 = len(report.feedback)
            try:
                if tool == 'verify':
                    verify()
                elif tool == 'tifa' and parses:
                    tifa_analysis()
                elif tool == 'run' and parses and planted.get('kind') not in ('tifa', 'tifa-loop') and (independent or all(
                        p.get('kind') not in ('tifa', 'tifa-loop', 'runtime') for p in f['planted'][:k])):
                    sbx.run()
                elif tool == 'run' and not parses and independent and planted.get('kind') == 'syntax':
                    # running a section that does not compile: the failure is a run-time feedback about a SyntaxError, on the
                    # line of the original file
                    sbx.run()
                    ctx.count('runs_of_sections_that_do_not_compile')
                elif tool == 'call' and parses and planted.get('kind') == 'callable' and 'run' in tools[:tools.index('call')] and \
                        (independent or all(p.get('kind') not in ('tifa', 'tifa-loop', 'runtime') for p in f['planted'][:k])):
                    sbx.call(planted['fname'], 7)
                else:
                    continue
            except Exception as e:
                ctx.violation('C17|tool-raised|%s|%s' % (tool, type(e).__name__), dict(case, upto=k), traceback.format_exc()[-500:])
                return
            ctx.count('tool_calls')
            if tool == 'run' and planted.get('kind') == 'callable' and sbx.get_exception() is None:
                defined_earlier.append((k, planted))
            new = report.feedback[n0:]
            for fb in new:
                # every line reported while a section is active lies inside that section's span of the original file
                got_any = getattr(fb.location, 'line', None) if fb.location is not None else None
                if independent and isinstance(got_any, int) and tool in ('verify', 'tifa'):
                    span_lo, span_hi = before_lines + 1, before_lines + want_code.count('\n') + 1
                    ctx.count('line_spans_checked')
                    if not (span_lo <= got_any <= span_hi):
                        ctx.violation('C17|line-outside-section-span|%s|%s' % (tool, 'section-0' if k == 0 else 'later-section'), dict(case, upto=k),
                                      '%s reports line %d; section %d spans whole-file lines %d-%d' % (fb.label, got_any, k, span_lo, span_hi))
                exp_line = None
                frames = None
                fam = None
                cat = str(fb.category or '').lower()
                # which planted diagnostic does this feedback belong to? (cumulative mode re-reports earlier chunks)
                cands = [planted] if independent else [p for p in f['planted'][:k + 1]]
                if cat == 'syntax' and fb.label in ('syntax_error', 'indentation_error'):
                    ps = [p for p in cands if p.get('kind') == 'syntax']
                    if ps:
                        exp_line = line_of(text, ps[0]['token'])
                        fam = 'syntax'
                elif fb.label in ('initialization_problem', 'possible_initialization_problem'):
                    name = None
                    try:
                        name = fb.fields.get('name')
                    except Exception:
                        pass
                    ps = [p for p in cands if p.get('kind') == 'tifa' and p.get('name') == name]
                    if ps:
                        exp_line = line_of(text, ps[0]['token'])
                        fam = 'tifa'
                elif fb.label in ('iterating_over_empty_list', 'iterating_over_non_list'):
                    ps = [p for p in cands if p.get('kind') == 'tifa-loop' and p.get('label') == fb.label]
                    if len(ps) == 1:
                        exp_line = line_of(text, ps[0]['token'])
                        fam = 'tifa-loop'
                elif cat == 'runtime' and tool == 'run' and not parses:
                    exp_line = line_of(text, planted['token'])
                    fam = 'runtime-run-of-a-section-that-does-not-compile'
                elif cat == 'runtime':
                    ps = [p for p in cands if p.get('kind') in ('runtime', 'callable')]
                    if tool == 'call':
                        ps = [planted]
                    elif ps:
                        ps = [p for p in ps if p.get('kind') == 'runtime'][:1]
                    if ps:
                        exp_line = line_of(text, ps[0]['token'])
                        frames = [line_of(text, t) for t in ps[0]['frames']]
                        fam = 'runtime-' + tool
                if exp_line is None:
                    continue
                got = getattr(fb.location, 'line', None)
                ctx.count('lines_compared')
                ctx.seen('diagnostic_kinds', fam)
                if k >= 1:
                    nontrivial = True
                    ctx.count('lines_compared_in_later_sections')
                if got != exp_line:
                    ctx.violation('C17|wrong-line|%s|%s|%s' % (fam, key_mode, 'section-0' if k == 0 else 'later-section'),
                                  dict(case, upto=k), 'planted at whole-file line %d, feedback says %r (section %d starts after %d lines)'
                                  % (exp_line, got, k, before_lines))
                # traceback text
                try:
                    msg = fb.message or ''
                except Exception:
                    msg = ''
                nums = [int(n) for n in re.findall(r'Line (\d+) of file', re.sub(r'<[^>]+>', '', msg))]
                if frames and nums:
                    ctx.count('traceback_lines_compared', len(nums))
                    bad = [n for n in nums if n not in frames]
                    if bad:
                        ctx.violation('C17|traceback-line-not-a-planted-frame|%s|%s|%s' % (fam, key_mode, 'section-0' if k == 0 else 'later-section'),
                                      dict(case, upto=k), 'traceback names lines %s, planted frames are at %s' % (nums, frames))
                elif fam == 'syntax' and nums:
                    ctx.count('traceback_lines_compared', len(nums))
                    if any(n != exp_line for n in nums):
                        ctx.violation('C17|traceback-line-not-a-planted-frame|syntax|%s|%s' % (key_mode, 'section-0' if k == 0 else 'later-section'),
                                      dict(case, upto=k), 'traceback names lines %s, planted at %s' % (nums, exp_line))
        # ---- a function that an EARLIER section defined (the sandbox keeps it), called while this section is active -----------
        earlier = [(j, p) for j, p in defined_earlier if j < k]
        if earlier and 'call' in tools and k < n_sections:
            j, p = earlier[-1]
            n0 = len(report.feedback)
            try:
                sbx.call(p['fname'], 7)
            except Exception as e:
                ctx.violation('C17|tool-raised|call-of-earlier-section-function|%s' % type(e).__name__, dict(case, upto=k), traceback.format_exc()[-400:])
                return
            ctx.count('calls_of_functions_from_earlier_sections')
            want_line = line_of(text, p['token'])
            for fb in report.feedback[n0:]:
                if str(fb.category or '').lower() == 'runtime' and want_line is not None:
                    got = getattr(fb.location, 'line', None)
                    ctx.count('lines_compared')
                    nontrivial = True
                    if got != want_line:
                        ctx.violation('C17|wrong-line|runtime-in-a-function-defined-by-an-earlier-section|%s' % key_mode, dict(case, upto=k),
                                      'the function of section %d fails at whole-file line %d; while section %d is active the feedback says %r' % (j, want_line, k, got))
    # ---- ending -----------------------------------------------------------------------------------------
    sections_done = True
    try:
        if h['ending'] == 'stop_sections':
            stop_sections()
        else:
            simple.resolve()
    except Exception as e:
        ctx.violation('C17|ending-raised|%s|%s' % (h['ending'], type(e).__name__), case, traceback.format_exc()[-500:])
        return
    if sub.main_code != text:
        ctx.violation('C17|main-code-not-restored|%s' % h['ending'], case, {'got': sub.main_code[-200:]})
    ctx.count('restorations_checked')
    # ---- after the sections are over the tools see the whole file again: their line numbers are whole-file numbers ---------
    whole_parses = True
    try:
        compile(text, 'answer.py', 'exec')
    except (SyntaxError, ValueError):
        whole_parses = False
    if whole_parses and h['ending'] == 'stop_sections':
        n0 = len(report.feedback)
        try:
            tifa_analysis()
        except Exception as e:
            ctx.violation('C17|tool-raised|tifa-after-sections|%s' % type(e).__name__, case, traceback.format_exc()[-400:])
            return
        for fb in report.feedback[n0:]:
            if fb.label in ('initialization_problem', 'possible_initialization_problem'):
                try:
                    name = fb.fields.get('name')
                except Exception:
                    name = None
                ps = [p for p in f['planted'] if p.get('kind') == 'tifa' and p.get('name') == name]
                if ps and line_of(text, ps[0]['token']) is not None:
                    ctx.count('lines_compared_after_sections_ended')
                    got = getattr(fb.location, 'line', None)
                    if got != line_of(text, ps[0]['token']):
                        ctx.violation('C17|wrong-line|after-sections-ended|tifa|%s' % key_mode, case,
                                      'planted at whole-file line %d; after stop_sections() the analysis of the whole file says %r' % (line_of(text, ps[0]['token']), got))
    ctx.case(('F:' + text + repr(h)) if nontrivial else None)
    if ctx.evaluations % 67 == 0:
        ctx.sample({'file': text[:500], 'pattern': f['pattern'], 'history': h, 'chunk_kinds': f['kinds']})


def check_repeated_section_text(ctx):
    """several sections with exactly the same text (a worksheet whose parts start from the same lines): each part's diagnostics are
    on that part's own lines of the original file"""
    from pedal.core.commands import clear_report, contextualize_report
    from pedal.core.report import MAIN_REPORT
    from pedal.source import verify, separate_into_sections, next_section
    from pedal.tifa import tifa_analysis
    from pedal.sandbox import commands as sbx
    rng = ctx.rng
    bodies = {'tifa': 'print(never_assigned)\n', 'syntax': 'oops = = 1\n', 'runtime': 'values = [1]\nprint(values[3])\n'}
    for kind, body in sorted(bodies.items()):
        for gap in (0, 2):
            prologue = 'first = 0\nprint(first)\n' + '\n' * gap
            text = prologue + '##### Part 1\n' + body + '##### Part 2\n' + body + '##### Part 3\n' + body
            bad_line_in_body = body.count('\n')           # the last line of the body carries the problem
            for order in ((1, 2, 3), (1, 3), (2, 3)):
                clear_report()
                contextualize_report(text)
                separate_into_sections(independent=True)
                report = MAIN_REPORT
                at = 0
                for part in order:
                    while at < part:
                        next_section()
                        at += 1
                    marker_line = text[:text.index('##### Part %d' % part)].count('\n') + 1
                    want = marker_line + bad_line_in_body
                    n0 = len(report.feedback)
                    case = {'scenario': 'repeated-section-text', 'kind': kind, 'text': text, 'visited': list(order), 'part': part}
                    try:
                        result = None
                        if kind == 'tifa':
                            result = tifa_analysis()
                        elif kind == 'syntax':
                            verify()
                        else:
                            sbx.clear_sandbox()
                            sbx.run()
                    except Exception as e:
                        ctx.violation('C17|tool-raised|%s|%s|repeated-section-text' % (kind, type(e).__name__), case, traceback.format_exc()[-400:])
                        break
                    lines = [getattr(fb.location, 'line', None) for fb in report.feedback[n0:]
                             if fb.label in ('initialization_problem', 'syntax_error') or str(fb.category).lower() == 'runtime']
                    if result is not None:
                        # what the analysis of this part answers (its issues are attached to the report when first found)
                        lines = [getattr(fb.location, 'line', None) for fb in result.issues.get('initialization_problem', [])]
                    ctx.count('lines_compared')
                    ctx.count('repeated_section_texts_checked')
                    ctx.case('repeated:%s:%s:%s:%d' % (kind, gap, order, part))
                    if lines != [want]:
                        ctx.violation('C17|wrong-line|%s|independent|section-with-the-same-text-as-an-earlier-one' % kind, case,
                                      'part %d: the problem is on whole-file line %d; reported lines %s' % (part, want, lines))


def check_private_report(ctx):
    """the same walk over the sections of a file on a report object of the grader's own (not the default one): after stop_sections
    or after resolving THAT report its submission holds the original text again and no line offset is left"""
    from pedal.core.report import Report
    from pedal.core.commands import contextualize_report
    from pedal.source import separate_into_sections, next_section, verify
    from pedal.source.sections import stop_sections
    from pedal.resolvers import simple
    rng = ctx.rng
    for t in range(ctx.pick(12, 120)):
        f = gen_file(rng)
        text = f['text']
        for ending in ('resolve', 'stop_sections', 'resolve-by-keyword'):
            for independent in (True, False):
                r = Report()
                case = {'scenario': 'private-report', 'text': text, 'pattern': f['pattern'], 'ending': ending, 'independent': independent}
                try:
                    contextualize_report(text, report=r)
                    if f['pattern'] is None:
                        separate_into_sections(independent=independent, report=r)
                    else:
                        separate_into_sections(pattern=f['pattern'], independent=independent, report=r)
                    from pedal.core.report import MAIN_REPORT as default_report
                    default_before = len(default_report.feedback) + len(default_report.ignored_feedback)
                    visits = rng.randint(1, f['n_markers'] + 1)
                    past = rng.random() < 0.4
                    for k in range(visits if not past else f['n_markers'] + 2):
                        next_section(report=r)
                        verify(report=r)
                    if past:
                        ctx.count('past_the_end_requests_on_a_private_report')
                        if not any(fb.label == 'not_enough_sections' for fb in r.feedback + r.ignored_feedback):
                            ctx.violation('C17|past-the-end-without-not_enough_sections|private-report', case, [fb.label for fb in r.feedback][-5:])
                    strayed = (default_report.feedback + default_report.ignored_feedback)[default_before:]
                    if strayed:
                        ctx.violation('C17|section-feedback-recorded-in-the-default-report|private-report', case, sorted({fb.label for fb in strayed}))
                    if ending == 'resolve':
                        simple.resolve(r)
                    elif ending == 'resolve-by-keyword':
                        simple.resolve(report=r)
                    else:
                        stop_sections(report=r)
                except Exception as e:
                    ctx.violation('C17|tool-raised|private-report|%s' % type(e).__name__, case, traceback.format_exc()[-500:])
                    continue
                ctx.count('restorations_checked')
                ctx.count('restorations_checked_on_a_private_report')
                ctx.case('private:%s:%s:%s' % (ending, independent, text[:400]))
                if r.submission.main_code != text:
                    ctx.violation('C17|main-code-not-restored|%s|private-report' % ending.split('-')[0], case, {'got': r.submission.main_code[-200:]})
                elif any(r.submission.line_offsets.values()):
                    ctx.violation('C17|line-offset-left-behind|%s|private-report' % ending.split('-')[0], case, dict(r.submission.line_offsets))


def run(ctx):
    if ctx.shard == 2:
        check_private_report(ctx)
    if ctx.shard == 1:
        check_repeated_section_text(ctx)
    from props import sbx_common as sc
    sc.private_cwd()
    rng = ctx.rng
    n = ctx.pick(250, 6000)
    for i in range(n):
        if ctx.time_left() < 2:
            break
        f = gen_file(rng)
        h = gen_history(rng, f)
        check(ctx, {'file': f, 'history': h})


def replay(ctx, case):
    if case.get('scenario') == 'private-report':
        return check_private_report(ctx)
    if case.get('scenario') == 'repeated-section-text':
        return check_repeated_section_text(ctx)
    case = dict(case)
    case.pop('upto', None)
    check(ctx, case)
