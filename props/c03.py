"""C03 - see DESIGN.md section 4."""
from props import resolver_common as rc

ID = 'C03'
LEVEL = 'exploration'
TECHNIQUE = 'differential oracle: exact Fraction recomputation of the documented valence/trigger table vs real resolve'
LEVEL_TEXT = 'Held on the resolves observed: final.score equals the exact recomputation for every generated report on a 0.01 score grid plus a probe class for number marshalling; unit_test partial credit through a real sandbox; the same sum under the full resolver, and with one scored feedback given several times.'
LEVEL_NOTE = 'Trusts the score model (statement table); rounding ties and score operators outside the statement are skipped and counted.'
RULE = rc.RULES[ID]
ASSUMPTIONS = [
    'the reference model (oracles/resolver_model.py) encodes the documented category order, priority aliases and '
    'suppression forms from the property statement and docsrc; cells the statement leaves open (undocumented '
    'priority strings, score operators * and /, an eligible feedback that itself carries the default label) are '
    'skipped and counted as unmodelled',
    'held on the executions observed only',
]
SHARDS = {'quick': 16, 'thorough': 48}
BUDGET = {'quick': 40, 'thorough': 600}
MIN_NONTRIVIAL = {'quick': 200, 'thorough': 5000}
REQUIRED_COUNTERS = {'quick': ['resolves_checked'], 'thorough': ['resolves_checked']}


def run(ctx):
    rc.run(ctx, ID)


def replay(ctx, case):
    rc.replay(ctx, ID, case)
