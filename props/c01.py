"""C01 - see DESIGN.md section 4."""
from props import resolver_common as rc

ID = 'C01'
LEVEL = 'exploration'
TECHNIQUE = 'differential oracle: reference resolver model vs real simple.resolve on generated feedback multisets + universal monitor under the repo tests'
LEVEL_TEXT = 'Held on the resolves observed: every generated report (feedback multiset x suppression set x creation order x re-resolve history) is resolved by the real code and compared with an independent model of eligibility, ranking and tie-break; never-raises is observed on the same executions; the sectional resolver is judged per section with the sections\' feedback interleaved. Exploration, not proof: the input space is unbounded.'
LEVEL_NOTE = 'Trusts the reference model (written from the statement/docs) and CPython; cells the statement leaves open are skipped and counted.'
RULE = rc.RULES[ID]
ASSUMPTIONS = [
    'the reference model (oracles/resolver_model.py) encodes the documented category order, priority aliases and '
    'suppression forms from the property statement and docsrc; cells the statement leaves open (undocumented '
    'priority strings, score operators * and /, an eligible feedback that itself carries the default label) are '
    'skipped and counted as unmodelled',
    'held on the executions observed only',
]
SHARDS = {'quick': 16, 'thorough': 48}
BUDGET = {'quick': 40, 'thorough': 600}
MIN_NONTRIVIAL = {'quick': 200, 'thorough': 5000}
REQUIRED_COUNTERS = {'quick': ['resolves_checked'], 'thorough': ['resolves_checked']}


def run(ctx):
    rc.run(ctx, ID)


def replay(ctx, case):
    rc.replay(ctx, ID, case)
