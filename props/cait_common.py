"""Shared machinery for C10 (every CAIT match is a genuine embedding) and C11 (CAIT finds what exists by construction):
pattern derivation from a program, and an offline witness checker for AstMap results."""
import ast
import copy

WILD = '___'


def clone(n):
    """plain recursive copy of a syntax tree (copy.deepcopy exhausts the C recursion limit on ordinary programs)"""
    if isinstance(n, ast.AST):
        new = type(n)()
        for f, v in ast.iter_fields(n):
            setattr(new, f, clone(v))
        for a in ('lineno', 'col_offset', 'end_lineno', 'end_col_offset'):
            if hasattr(n, a):
                setattr(new, a, getattr(n, a))
        return new
    if isinstance(n, list):
        return [clone(x) for x in n]
    return n


def is_var_placeholder(name):
    return isinstance(name, str) and len(name) > 2 and name[0] == '_' and name[-1] == '_' and not name.startswith('__') and name != WILD


def is_exp_placeholder(name):
    return isinstance(name, str) and name.startswith('__') and name.endswith('__') and len(name) > 4


def is_placeholder_node(n):
    return isinstance(n, ast.Name) and (n.id == WILD or is_var_placeholder(n.id) or is_exp_placeholder(n.id))


# ------------------------------------------------------------------------------------------------------------------
# derivation (C11)
# ------------------------------------------------------------------------------------------------------------------

BODY_FIELDS = ('body', 'orelse', 'finalbody')


def statements_of(tree):
    """every statement at any depth with its (parent, field, index)"""
    out = []
    for node in ast.walk(tree):
        for f in BODY_FIELDS:
            seq = getattr(node, f, None)
            if isinstance(seq, list):
                for i, s in enumerate(seq):
                    if isinstance(s, ast.stmt):
                        out.append((s, node, f, i))
        if isinstance(node, ast.Try):
            for h in node.handlers:
                pass
    return out


def replaceable_expressions(root):
    """(parent, field, index|None, node) for expression positions that may be generalised"""
    out = []
    for parent in ast.walk(root):
        if isinstance(parent, (ast.Expr, ast.JoinedStr, ast.FormattedValue, ast.comprehension, ast.arguments, ast.arg, ast.keyword,
                               ast.Lambda, ast.ListComp, ast.SetComp, ast.DictComp, ast.GeneratorExp, ast.Slice, ast.Starred,
                               ast.withitem, ast.ExceptHandler, ast.AnnAssign, ast.Global, ast.Nonlocal, ast.Delete, ast.AugAssign)):
            continue
        if isinstance(parent, getattr(ast, 'pattern', ())) or isinstance(parent, getattr(ast, 'match_case', ())):
            continue        # inside `case ...:` a bare name is a capture, not an expression: `case __e__:` would be another pattern
        for field, value in ast.iter_fields(parent):
            if isinstance(parent, ast.Call) and field == 'func':
                continue
            if isinstance(parent, (ast.FunctionDef, ast.ClassDef, ast.AsyncFunctionDef)) and field in ('decorator_list', 'returns', 'bases', 'keywords', 'args', 'type_params'):
                continue
            if isinstance(parent, ast.Attribute):
                continue
            if isinstance(parent, ast.Subscript) and field == 'slice':
                continue
            if isinstance(parent, ast.Dict) and field == 'keys':
                continue
            if isinstance(parent, (ast.For, ast.AsyncFor)) and field == 'target':
                continue
            if isinstance(parent, ast.Call) and field == 'keywords':
                continue
            cands = value if isinstance(value, list) else [value]
            for i, v in enumerate(cands):
                if isinstance(v, ast.expr) and isinstance(getattr(v, 'ctx', ast.Load()), ast.Load) and not isinstance(v, (ast.Starred, ast.JoinedStr)):
                    if isinstance(v, ast.Name) and False:
                        continue
                    out.append((parent, field, i if isinstance(value, list) else None, v))
    return out


def variable_names(root):
    """identifiers used as plain variables (Name nodes that are not the callee of a call)"""
    callee = set()
    for n in ast.walk(root):
        if isinstance(n, ast.Call) and isinstance(n.func, ast.Name):
            callee.add(id(n.func))
    names = {}
    for n in ast.walk(root):
        if isinstance(n, ast.Name) and id(n) not in callee:
            names.setdefault(n.id, []).append(n)
    # names that are ALSO used as callee / def names / parameters / globals are left concrete (other symbol tables)
    bad = set()
    for n in ast.walk(root):
        if isinstance(n, ast.Call) and isinstance(n.func, ast.Name):
            bad.add(n.func.id)
        elif isinstance(n, (ast.FunctionDef, ast.ClassDef, ast.AsyncFunctionDef)):
            bad.add(n.name)
        elif isinstance(n, ast.arg):
            bad.add(n.arg)
        elif isinstance(n, (ast.Global, ast.Nonlocal)):
            bad.update(n.names)
        elif isinstance(n, ast.ExceptHandler) and n.name:
            bad.add(n.name)
        elif isinstance(n, ast.alias):
            bad.add((n.asname or n.name).split('.')[0])
        elif isinstance(n, ast.keyword) and n.arg:
            pass
    return {k: v for k, v in names.items() if k not in bad and not k.startswith('_') and k not in ('True', 'False', 'None')}


class Derived:
    def __init__(self):
        self.pattern = None
        self.var_bindings = {}     # placeholder -> original identifier
        self.func_bindings = {}    # placeholder -> original function / method name
        self.exp_bindings = {}     # placeholder -> (lineno, col_offset, dump) of the original subtree
        self.wild_count = 0
        self.dropped = 0
        self.root_kind = None
        self.steps = []


def derive(rng, program_tree, max_generalisations=4, whole_program_prob=0.2):
    """-> Derived (pattern text obtained from the program itself) or None"""
    tree = program_tree
    d = Derived()
    stmts = statements_of(tree)
    if not stmts:
        return None
    r0 = rng.random()
    if r0 < whole_program_prob:
        frag = ast.Module(body=clone(tree.body), type_ignores=[])
        d.root_kind = 'Module'
        if len(frag.body) > 4 and rng.random() < 0.7:
            # the whole program with most top-level statements dropped: short multi-statement patterns
            keep = sorted(rng.sample(range(len(frag.body)), rng.randint(2, 4)))
            d.dropped += len(frag.body) - len(keep)
            frag.body = [frag.body[i] for i in keep]
            d.steps.append('drop')
            max_generalisations = max_generalisations + 2
    else:
        # a single statement of the program, at any depth (the listed derivations start from the whole program or one statement;
        # sibling statements are dropped INSIDE the fragment by the generalisation steps)
        s, parent, field, idx = rng.choice(stmts)
        frag = ast.Module(body=[clone(s)], type_ignores=[])
        d.root_kind = type(s).__name__
    # remember the original positions before mutating
    for n in ast.walk(frag):
        if hasattr(n, 'lineno'):
            n._orig = (n.lineno, n.col_offset, ast.dump(n))
    n_steps = rng.randint(0, max_generalisations)
    counter = [0]
    for _ in range(n_steps):
        r = rng.random()
        if r < 0.35:
            generalise_expression(rng, frag, d, counter)
        elif r < 0.65:
            generalise_identifier(rng, frag, d)
        elif r < 0.78:
            generalise_function_name(rng, frag, d)
        else:
            drop_statement(rng, frag, d)
    try:
        d.pattern = ast.unparse(ast.fix_missing_locations(frag))
        ast.parse(d.pattern)
    except Exception:
        return None
    if not d.pattern.strip():
        return None
    d.fragment = frag
    return d


def generalise_expression(rng, frag, d, counter):
    cands = [c for c in replaceable_expressions(frag) if not is_placeholder_node(c[3])]
    if not cands:
        return
    parent, field, i, node = rng.choice(cands)
    if rng.random() < 0.5:
        new = ast.Name(id=WILD, ctx=ast.Load())
        d.wild_count += 1
        d.steps.append('wild')
    else:
        counter[0] += 1
        name = '__e%d__' % counter[0]
        new = ast.Name(id=name, ctx=ast.Load())
        d.exp_bindings[name] = getattr(node, '_orig', None)
        d.steps.append('exp')
    # placeholders replaced inside the subtree disappear with it
    inner_names = {n.id for n in ast.walk(node) if isinstance(n, ast.Name)}
    for k in list(d.exp_bindings):
        if k in inner_names and k != getattr(new, 'id', None):
            del d.exp_bindings[k]
    if i is None:
        setattr(parent, field, new)
    else:
        getattr(parent, field)[i] = new
    # variable placeholders that no longer occur anywhere lose their binding
    remaining = {n.id for n in ast.walk(frag) if isinstance(n, ast.Name)}
    for k in list(d.var_bindings):
        if k not in remaining:
            del d.var_bindings[k]
    prune_func_bindings(frag, d)
    prune_func_bindings(frag, d)


def prune_func_bindings(frag, d):
    present = set()
    for n in ast.walk(frag):
        if isinstance(n, ast.FunctionDef):
            present.add(n.name)
        elif isinstance(n, ast.Call):
            if isinstance(n.func, ast.Name):
                present.add(n.func.id)
            elif isinstance(n.func, ast.Attribute):
                present.add(n.func.attr)
    for k in list(d.func_bindings):
        if k not in present:
            del d.func_bindings[k]


def generalise_identifier(rng, frag, d):
    names = variable_names(frag)
    names = {k: v for k, v in names.items() if not is_placeholder_node(v[0]) and k not in d.var_bindings.values()}
    if not names:
        return
    ident = rng.choice(sorted(names))
    d.var_counter = getattr(d, 'var_counter', 0) + 1        # never reuse a placeholder name within one pattern
    ph = '_v%d_' % d.var_counter
    for n in names[ident]:
        n.id = ph
    d.var_bindings[ph] = ident
    d.steps.append('var')


def generalise_function_name(rng, frag, d):
    """def name and every call of it (plain or as a method) -> one _fN_ placeholder"""
    defs = {n.name for n in ast.walk(frag) if isinstance(n, ast.FunctionDef) and not n.name.startswith('_')}
    called = set()
    for n in ast.walk(frag):
        if isinstance(n, ast.Call):
            if isinstance(n.func, ast.Name) and not n.func.id.startswith('_'):
                called.add(n.func.id)
            elif isinstance(n.func, ast.Attribute) and not n.func.attr.startswith('_'):
                called.add(n.func.attr)
    # a name that is also used as a plain variable or attribute value elsewhere stays concrete
    plain = {n.id for n in ast.walk(frag) if isinstance(n, ast.Name)} - {n.func.id for n in ast.walk(frag) if isinstance(n, ast.Call) and isinstance(n.func, ast.Name)}
    other_attrs = set()
    callee_attr_ids = {id(n.func) for n in ast.walk(frag) if isinstance(n, ast.Call) and isinstance(n.func, ast.Attribute)}
    for n in ast.walk(frag):
        if isinstance(n, ast.Attribute) and id(n) not in callee_attr_ids:
            other_attrs.add(n.attr)
    cands = sorted((defs | called) - plain - other_attrs - set(d.func_bindings.values()) - {'print', 'range', 'len', 'input'})
    if not cands:
        return
    name = rng.choice(cands)
    d.var_counter = getattr(d, 'var_counter', 0) + 1
    ph = '_f%d_' % d.var_counter
    for n in ast.walk(frag):
        if isinstance(n, ast.FunctionDef) and n.name == name:
            n.name = ph
        elif isinstance(n, ast.Call):
            if isinstance(n.func, ast.Name) and n.func.id == name:
                n.func.id = ph
            elif isinstance(n.func, ast.Attribute) and n.func.attr == name:
                n.func.attr = ph
    d.func_bindings[ph] = name
    d.steps.append('func')


def drop_statement(rng, frag, d):
    lists = []
    for node in ast.walk(frag):
        for f in BODY_FIELDS:
            seq = getattr(node, f, None)
            if isinstance(seq, list) and len(seq) >= 2 and all(isinstance(s, ast.stmt) for s in seq):
                lists.append(seq)
    if not lists:
        return
    seq = rng.choice(lists)
    i = rng.randrange(len(seq))
    removed = seq.pop(i)
    d.dropped += 1
    d.steps.append('drop')
    gone = {n.id for n in ast.walk(removed) if isinstance(n, ast.Name)}
    remaining = {n.id for n in ast.walk(frag) if isinstance(n, ast.Name)}
    for k in list(d.exp_bindings):
        if k in gone and k not in remaining:
            del d.exp_bindings[k]
    for k in list(d.var_bindings):
        if k not in remaining:
            del d.var_bindings[k]
    prune_func_bindings(frag, d)


# ------------------------------------------------------------------------------------------------------------------
# witness checker (C10)
# ------------------------------------------------------------------------------------------------------------------

def parent_map(root):
    pm = {}
    for node in ast.walk(root):
        for field, value in ast.iter_fields(node):
            if isinstance(value, list):
                for i, v in enumerate(value):
                    if isinstance(v, ast.AST):
                        pm[id(v)] = (node, field, i)
            elif isinstance(value, ast.AST):
                pm[id(value)] = (node, field, None)
    return pm


PRIMITIVE_SKIP = {'lineno', 'col_offset', 'end_lineno', 'end_col_offset', 'ctx', 'kind', 'type_comment'}


def primitive_fields(node):
    out = {}
    for field, value in ast.iter_fields(node):
        if field in PRIMITIVE_SKIP:
            continue
        if isinstance(value, ast.AST) or (isinstance(value, list) and (not value or any(isinstance(v, ast.AST) for v in value))):
            continue        # child nodes (Dict.keys may start with None for a ** entry and still be a list of nodes)
        if isinstance(value, list):
            out[field] = tuple(value)
        else:
            out[field] = value
    return out


def occurrences(root, ident):
    """how often an identifier text occurs in a pattern tree, in any identifier position"""
    n = 0
    for node in ast.walk(root):
        for f in ('id', 'attr', 'arg', 'name'):
            if getattr(node, f, None) == ident:
                n += 1
    return n


def pattern_root_of(mappings):
    """top-most pattern ast node among the keys"""
    keys = [k.astNode for k in mappings]
    ids = {id(k) for k in keys}
    for k in mappings:
        p = getattr(k, 'parent', None)
        if p is None or id(getattr(p, 'astNode', None)) not in ids:
            top = k
            # climb to the real root of the pattern tree
            while getattr(top, 'parent', None) is not None:
                top = top.parent
            return top.astNode
    return keys[0]


def check_witness(match, pattern_text, student_root, problems):
    """Appends (kind, detail) tuples for every way `match` fails to be a genuine embedding."""
    mappings = match.mappings
    if not mappings:
        problems.append(('empty-mapping', ''))
        return
    def top_of(k):
        while getattr(k, 'parent', None) is not None:
            k = k.parent
        return k.astNode
    roots = {}
    for k in mappings:
        roots.setdefault(id(top_of(k)), (top_of(k), []))[1].append(k)
    chosen = None
    if len(roots) > 1:
        # the match of a sub-query carries the pairs of the earlier match along: judge the tree of THIS pattern
        try:
            want = ast.unparse(ast.parse(pattern_text)).strip()
        except SyntaxError:
            want = None
        candidates = []
        for rid, (rnode, ks) in roots.items():
            try:
                if want is not None and ast.unparse(rnode).strip() == want:
                    candidates.append(rid)
            except Exception:
                pass
        if len(candidates) > 1:
            # the earlier match was made with the very same pattern text (the idiom for nested constructs): this match's own tree is
            # the one that holds the partner of its root
            mine = [rid for rid in candidates if any(mappings[k] is match.match_root for k in roots[rid][1])]
            if len(mine) != 1:
                problems.append(('match_root-is-paired-in-%d-of-the-pattern-trees-with-this-text' % len(mine), ''))
                return
            candidates = mine
        chosen = candidates[0] if candidates else None
        if chosen is None:
            problems.append(('pairs-of-several-pattern-trees-and-none-is-this-pattern', ''))
            return
        mappings = {k: v for k, v in mappings.items() if id(top_of(k)) == chosen}
    pairs = [(k.astNode, v.astNode) for k, v in mappings.items()]
    partner = {id(a): b for a, b in pairs}
    proot = pattern_root_of(mappings)
    ppm = parent_map(proot)
    spm = parent_map(student_root)
    student_ids = {id(n) for n in ast.walk(student_root)}
    flex = set()          # pattern nodes whose pairing is documented as flexible (Module root, Expr wrapper, pass)
    for a, b in pairs:
        if id(b) not in student_ids:
            problems.append(('partner-not-in-student-tree', type(b).__name__))
            return
    sym = {}
    for a, b in pairs:
        # ---- placeholders -------------------------------------------------------------------------------------
        if isinstance(a, ast.Name) and a.id == WILD:
            continue
        if isinstance(a, ast.Pass):
            flex.add(id(a))         # `pass` is CAIT's wildcard for "anything here" (documented)
            continue
        if isinstance(a, ast.Name) and is_exp_placeholder(a.id):
            e = match.exp_table.get(a.id)
            once = occurrences(proot, a.id) == 1
            if once and (e is None or e.astNode is not b):
                # a placeholder used several times is a documented TODO (the table keeps one of the bindings)
                problems.append(('expression-placeholder-bound-to-other-subtree', a.id))
            continue
        if isinstance(a, ast.Name) and is_var_placeholder(a.id):
            ident = getattr(b, 'id', None) if isinstance(b, ast.Name) else (getattr(b, 'arg', None) if isinstance(b, ast.arg) else getattr(b, 'name', None))
            if isinstance(b, ast.Call):
                continue        # _function_() call placeholders: function table (documented), not judged here
            if ident is None:
                problems.append(('name-placeholder-paired-with-non-identifier', '%s -> %s' % (a.id, type(b).__name__)))
            else:
                sym.setdefault(a.id, set()).add(ident)
            continue
        if isinstance(a, ast.Module):
            flex.add(id(a))
            continue
        if isinstance(a, ast.Expr):
            flex.add(id(a))
            if not isinstance(b, (ast.Expr, ast.stmt, ast.expr)):
                problems.append(('expr-wrapper-paired-with', type(b).__name__))
            continue
        # ---- concrete node: same kind, equal content ------------------------------------------------------------
        if type(a) is not type(b):
            problems.append(('kind-differs', '%s paired with %s' % (type(a).__name__, type(b).__name__)))
            continue
        pa, pb = primitive_fields(a), primitive_fields(b)
        for f, va in pa.items():
            if isinstance(va, str) and (is_var_placeholder(va) or va == WILD or is_exp_placeholder(va)):
                continue        # def _name_(...): / class _name_: / obj.__attr__ placeholders in identifier fields
            if va is None and not isinstance(a, ast.Constant):
                continue        # an optional part the pattern leaves out (except X: without a name, def without returns)
            vb = pb.get(f)
            if isinstance(a, (ast.Global, ast.Nonlocal)) and f == 'names' and isinstance(va, tuple) and isinstance(vb, tuple) and vb[:len(va)] == va:
                continue        # a list of names is matched like the other lists: the student's statement may name more (never fewer)
            if type(va) is not type(vb) or va != vb:
                problems.append(('content-differs', '%s.%s: pattern %r, student %r' % (type(a).__name__, f, va, vb)))
    # ---- structure: children are children of the partner, in order ----------------------------------------------
    for a, b in pairs:
        info = ppm.get(id(a))
        if info is None:
            continue
        pa, field, idx = info
        if id(pa) not in partner:
            continue
        if id(pa) in flex or id(a) in flex and isinstance(a, (ast.Module,)):
            continue
        if isinstance(pa, ast.Expr) or isinstance(a, (ast.operator, ast.boolop, ast.unaryop, ast.cmpop, ast.expr_context)):
            continue
        pb = partner[id(pa)]
        sinfo = spm.get(id(b))
        if sinfo is None or sinfo[0] is not pb:
            # the partner of an Expr-wrapped pattern statement may be the inner expression's statement
            if isinstance(pa, ast.Expr):
                continue
            problems.append(('child-not-under-partner-of-parent', '%s under %s' % (type(a).__name__, type(pa).__name__)))
        elif sinfo[1] != field:
            # same parent, other role: the callee paired with an argument, a body statement with one of the else part ...
            commutative = isinstance(pa, ast.BinOp) and isinstance(pa.op, (ast.Add, ast.Mult)) and {field, sinfo[1]} <= {'left', 'right'}
            if not commutative and type(pa) is type(pb):
                problems.append(('child-in-another-field-of-the-partner', '%s.%s paired with %s.%s' % (type(pa).__name__, field, type(pb).__name__, sinfo[1])))
    # sibling order within list fields
    by_parent = {}
    for a, b in pairs:
        info = ppm.get(id(a))
        if info is None or info[2] is None:
            continue
        if isinstance(a, (ast.operator, ast.boolop, ast.unaryop, ast.cmpop, ast.expr_context)):
            continue        # operator nodes are shared singletons in CPython's tree: identity says nothing about position
        by_parent.setdefault((id(info[0]), info[1]), []).append((info[2], a, b))
    for (pid, field), items in by_parent.items():
        items.sort(key=lambda t: t[0])
        last = -1
        seen_students = set()
        for _, a, b in items:
            sinfo = spm.get(id(b))
            if sinfo is None or sinfo[2] is None:
                continue
            if id(b) in seen_students:
                problems.append(('two-pattern-siblings-paired-with-one-student-node', type(b).__name__))
            seen_students.add(id(b))
            if sinfo[2] < last:
                problems.append(('sibling-order-not-preserved', '%s.%s' % (type(a).__name__, field)))
            last = max(last, sinfo[2])
    # ---- every concrete pattern node has a partner --------------------------------------------------------------
    mapped_ids = set(partner)
    root_pattern_nodes = [n for n in ast.walk(proot)]
    # only nodes below the matched fragment root(s) count: those whose ancestor chain reaches a mapped node
    for n in root_pattern_nodes:
        if isinstance(n, (ast.expr_context, ast.Module)) or id(n) in mapped_ids:
            continue
        info = ppm.get(id(n))
        if info is None:
            continue
        par = info[0]
        if id(par) in mapped_ids and not (isinstance(par, ast.Name)):
            parb = partner[id(par)]
            # a mapped parent whose partner is a wildcard-paired subtree hides its children legitimately
            if isinstance(par, ast.Name) or isinstance(par, ast.Pass):
                continue
            if isinstance(n, ast.Name) and is_exp_placeholder(n.id) and isinstance(par, ast.Expr) and n.id in match.exp_table:
                continue        # a placeholder standing for a whole statement: the statement is what gets paired (and bound)
            problems.append(('pattern-node-without-partner', '%s under %s' % (type(n).__name__, type(par).__name__)))
    # ---- symbols --------------------------------------------------------------------------------------------------
    for ph, idents in sym.items():
        if len(idents) > 1:
            problems.append(('name-placeholder-bound-to-several-identifiers', '%s -> %s' % (ph, sorted(idents))))
        table = match.symbol_table.get(ph)
        if table is not None:
            ids = {s.id for s in table}
            if len(ids) > 1:
                problems.append(('symbol-table-holds-several-identifiers', '%s -> %s' % (ph, sorted(ids))))
            elif ids and idents and ids != idents:
                problems.append(('symbol-table-disagrees-with-pairing', '%s: table %s, paired %s' % (ph, sorted(ids), sorted(idents))))
    for ph, e in match.exp_table.items():
        hit = [b for a, b in pairs if isinstance(a, ast.Name) and a.id == ph]
        if len(hit) == 1 and occurrences(proot, ph) == 1 and all(e.astNode is not b for b in hit):
            problems.append(('exp-table-not-the-paired-node', ph))
    if match.match_root is not None:
        roots = [b for a, b in pairs if ppm.get(id(a)) is None or id(ppm[id(a)][0]) not in mapped_ids]
        if roots and all(match.match_root.astNode is not b for b in roots):
            problems.append(('match_root-is-not-the-partner-of-the-pattern-root', type(match.match_root.astNode).__name__))


# ---- how the student's program is put before CAIT -------------------------------------------------------------------------
PRESENTED = {'how': 'plain', 'n': 0}
SECTION_HEAD = 'earlier = 1\nprint(earlier + earlier, [earlier] * 2)\nfor e in [earlier]:\n    earlier = e\n##### Part 1'


def kw():
    """the report= argument of every question about the program that present() installed"""
    return {'report': PRESENTED['report']} if PRESENTED.get('report') is not None else {}


def present(ctx, src, how=None, fresh=False):
    """Install `src` as the program the questions are about and return the text that is now the submission's main code.
    'plain': contextualize_report(src).
    'second-section': src is the part after the first marker of a sectioned file whose first part was verified by the Source tool
        (which keeps that part's tree); the grader has moved to the next section and asks CAIT before (or without) verifying again -
        the answers are about the CURRENT section's text.
    'after-verifying-other-code': the grader had the Source tool check some other text (verify(code)) after attaching the submission.
    'after-sections-were-stopped': src is the whole file again after its sections were walked (and the last one verified).
    'attached-without-clearing': an earlier submission was set and verified on the report, then src attached with clear=False."""
    from pedal.core.commands import clear_report, contextualize_report
    from pedal.core.report import MAIN_REPORT
    clear_report()
    PRESENTED['report'] = None
    if how is None:
        PRESENTED['n'] += 1
        how = {0: 'second-section', 2: 'split-again-after-other-text-failed', 4: 'after-verifying-other-code', 6: 'on-a-report-of-its-own', 8: 'after-sections-were-stopped',
               10: 'attached-without-clearing'}.get(PRESENTED['n'] % 12, 'plain')
        fresh = True
    if how == 'on-a-report-of-its-own':
        # the grader keeps this submission's report to herself and passes it to every question (kw()); the default report holds
        # another submission meanwhile
        from pedal.core.report import Report
        contextualize_report('the_default_reports_program = 1\nprint(the_default_reports_program)\nfor other in [the_default_reports_program]:\n    pass\n')
        PRESENTED['report'] = Report()
        contextualize_report(src, report=PRESENTED['report'])
        PRESENTED['how'] = how
        ctx.seen('how_the_program_is_presented', how)
        return src
    if fresh:
        if '##### Part' in src or '\r' in src or '\x0c' in src:
            how = 'plain'
        if how == 'second-section':
            src = '\n' + src
        if how == 'after-sections-were-stopped':
            src = src + ('' if src.endswith('\n') else '\n') + '##### Part 1\nonly_the_last_part = 1\n'
    done = None
    if how == 'second-section':
        from pedal.source import set_source, verify, next_section
        set_source(SECTION_HEAD + src, sections=True, independent=True)
        verify()
        next_section()
        if MAIN_REPORT.submission.main_code == src:
            done = how
            ctx.count('programs_presented_as_a_later_section')
        else:
            clear_report()      # the text did not split as intended (marker-like lines of its own): plain presentation
            src = src[1:]
    elif how == 'after-verifying-other-code':
        from pedal.source import verify
        contextualize_report(src)
        if (PRESENTED['n'] // 12) % 2 == 0:
            verify()            # (as an environment does on setting up; then the script looks at a helper file of its own)
        verify('other_code_entirely = 99\nprint(other_code_entirely)\n', filename='helper.py' if (PRESENTED['n'] // 12) % 3 else 'answer.py')
        done = how
    elif how == 'after-sections-were-stopped':
        # the file has one marker; both parts were visited and verified, then the sections were stopped: the whole file is the
        # program again
        from pedal.source import set_source, verify, next_section
        from pedal.source.sections import stop_sections
        set_source(src, sections=True, independent=True)
        verify()
        next_section()
        verify()
        stop_sections()
        if MAIN_REPORT.submission.main_code == src:
            done = how
        else:
            clear_report()
    elif how == 'attached-without-clearing':
        from pedal.source import set_source
        set_source('an_earlier_submission = 1\nprint(an_earlier_submission)\n')
        contextualize_report(src, clear=False)
        done = how
    elif how == 'split-again-after-other-text-failed':
        # the submission was set and verified, the grader then had some text checked that does not parse, and set the submission
        # again asking for sections (it has no markers: the whole file is the current code)
        from pedal.source import set_source, verify
        set_source(src)
        verify('this is ( not python\n')
        for f in [f for f in MAIN_REPORT.feedback if (f.category or '').lower() == 'syntax']:
            MAIN_REPORT.feedback.remove(f)
        set_source(src, sections=True)
        if MAIN_REPORT.submission.main_code == src:
            done = how
        else:
            clear_report()
    if done:
        PRESENTED['how'] = done
        ctx.seen('how_the_program_is_presented', done)
        return src
    PRESENTED['how'] = 'plain'
    ctx.seen('how_the_program_is_presented', 'plain')
    contextualize_report(src)
    return src
