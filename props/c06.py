"""C06 - sandboxed execution is observationally equivalent to plain CPython execution."""
import builtins
import contextlib
import copy
import io
import sys
import re
import time
import traceback
import unicodedata  # noqa: F401  (see props/sbx_common.py: must be imported before any sandbox run)

ID = 'C06'
LEVEL = 'exploration'
TECHNIQUE = 'differential execution: generated CS1 programs run in the real sandbox and by plain exec() as __main__ (same inputs); output, student globals, outcome class+line, and call() results compared'
LEVEL_TEXT = ('Held on the programs observed: each generated deterministic CS1 program (optionally with a planted failure) is run '
              'through run() and through plain exec() as __main__ with the same input queue; printed text, the set of student-defined '
              'global names with the values of data, and the outcome (normal / exception class at the same student line) are compared. '
              'Each generated function is then called through call() with three argument tuples plus hostile ones (repr longer than '
              '200 characters, kwargs, target names colliding with student names, inf/nan, repeated calls) and compared with calling '
              'the reference function on deep copies; temporaries must be purged. Inputs: per-execution queues over histories (lists, one '
              'line by itself, with the real console lent), and through every environment on the default report and on one of its own.')
LEVEL_NOTE = ('Reference = exec(compile(src, "answer.py", "exec")) in the same interpreter, with a FIFO input() that echoes the prompt '
              'the way pedal does (prompt echo is exempt by the statement). A sample of references is cross-validated against a real '
              '`python answer.py` subprocess. Programs using blocked features are excluded by construction.')
RULE = ('Programs from gen/programs.py (assignments, arithmetic, strings, lists/dicts/tuples, if/while/for, functions, classes, '
        'comprehensions, try/except/finally, print sep/end, sys.stdout.write, input(), math/sys imports, main guard); 45% get a '
        'planted failure at a random top-level position or inside a called function. Non-trivial: distinct program text that prints '
        'and defines a global; distinct (program, function, args) for calls.')
ASSUMPTIONS = ['generated programs are deterministic (no time/random/id/hash-order dependence)']
SHARDS = {'quick': 16, 'thorough': 48}
BUDGET = {'quick': 45, 'thorough': 1200}
MIN_NONTRIVIAL = {'quick': 1500, 'thorough': 60000}
REQUIRED_COUNTERS = {'quick': ['programs_compared', 'calls_compared', 'failing_programs'], 'thorough': ['programs_compared', 'calls_compared', 'failing_programs', 'subprocess_validations']}

NOT_STUDENT = {'__builtins__', '__name__', '__warningregistry__', 'input', 'compile', 'eval', 'exec', 'globals', 'exit', 'open', '__import__'}
PLANTS = ["boom = [1, 2][7]", "boom = {'a': 1}['zz']", "boom = 1 // 0", "boom = int('x1')", "boom = undefined_name + 1",
          "boom = 'a' + 1", "boom = None.attr", "raise ValueError('planted')", "assert False, 'planted'",
          "import sys\nsys.exit(3)", "raise SystemExit", "boom = len(5)", "boom = [].pop()", "boom = float('abc')",
          "class PlantedError(Exception):\n    pass\nraise PlantedError('custom')"]


SNIPPETS = [
    "def annotated(a: int, b: str = 'x') -> bool:\n    return str(a) == b\nprint(annotated.__annotations__, annotated(1), annotated.__defaults__)\n",
    "count_total: int = 3\nlabel: str\nprint(__annotations__)\n",
    "print(__name__)\n",
    "class Animal:\n    '''doc'''\n    legs: int = 4\n    def speak(self) -> str:\n        return 'hi'\nprint(Animal.__annotations__, Animal.speak.__annotations__, Animal.__doc__, Animal.__module__, Animal.__qualname__)\n",
    "def outer():\n    total = 0\n    def inner(k):\n        nonlocal total\n        total += k\n        return total\n    return inner\nacc = outer()\nprint(acc(2), acc(5), acc.__name__, acc.__qualname__)\n",
    "import string\nprint(string.ascii_lowercase[:5], string.digits)\n",
    "import json\nprint(json.dumps({'a': [1, 2, None], 'b': True}, sort_keys=True))\nprint(json.loads('[1, {\"k\": 2.5}]'))\n",
    "pairs = sorted({'b': 2, 'a': 1}.items())\nprint(pairs, max(pairs), sum(v for _, v in pairs))\n",
    "def gen(n):\n    for i in range(n):\n        yield i * i\nprint(list(gen(4)), sum(gen(3)))\n",
    "try:\n    raise KeyError('k')\nexcept KeyError as e:\n    print(type(e).__name__, e.args, str(e), repr(e))\n",
    "print(type(print).__name__, callable(len), isinstance(3, int))\n",
    "gx = 10\ndef show():\n    global gx\n    gx += 1\n    return gx\nprint(show(), gx)\n",
    "lam = lambda a, b=2: a ** b\nprint(lam(3), lam(2, 5), (lambda: 'k')())\n",
    "hs = 'Hello, World'\nprint(hs.lower(), hs.split(', '), hs[::-1], hs.find('W'), '%5.2f|%-4d|' % (3.14159, 7), f'{hs!r:>16}')\n",
    "tally = {}\nfor w in 'a b a c b a'.split():\n    tally[w] = tally.get(w, 0) + 1\nprint(tally, sorted(tally, key=tally.get, reverse=True))\n",
    "print(1 if __name__ == '__main__' else 0)\n",
    "print(round(2.5), round(3.5), 7 // 2, -7 // 2, 7 % -3, divmod(7, 2), 2 ** -1, 10 / 4)\n",
    "import math\nprint(math.pi > 3, math.floor(-0.5), math.gcd(12, 18), math.isclose(0.1 + 0.2, 0.3))\n",
    "tq = (1, 2, 3)\nfirst, *others = tq\nprint(first, others, tq.index(2), tq.count(1))\n",
    "print(bool(''), bool('0'), None is None, [] == [], 'a' < 'b', (1, 2) < (1, 3))\n",
    "from dataclasses import dataclass\n@dataclass\nclass PairDC:\n    x: int\n    y: int = 0\nprint(PairDC(1), PairDC(1, 2) == PairDC(1, 2), PairDC.__annotations__)\n",
    "reply = input('Your name? ')\nprint('Hi', reply, len(reply))\nother = input()\nprint(other.upper())\n",
    "import time\ntime.sleep(0.001)\nprint('slept')\n",
    "nums = [3, 1, 2]\nnums.sort(reverse=True)\nalias = nums\nalias.append(0)\nprint(nums, alias is nums, nums[1:], nums[-1], 2 in nums)\n",
    "class Stack:\n    def __init__(self):\n        self.items = []\n    def push(self, v):\n        self.items.append(v)\n        return self\n    def __len__(self):\n        return len(self.items)\n    def __repr__(self):\n        return 'Stack(%r)' % self.items\nst = Stack().push(1).push('a')\nprint(st, len(st), isinstance(st, Stack), type(st).__name__)\n",
    "def kw(a, *args, key=None, **extra):\n    return (a, args, key, sorted(extra.items()))\nprint(kw(1), kw(1, 2, 3, key='k', z=0, y=1))\n",
    "matrix = [[r * c for c in range(3)] for r in range(3)]\nprint(matrix, [row[1] for row in matrix], {r: sum(matrix[r]) for r in range(3)}, {v % 2 for row in matrix for v in row})\n",
    "import os.path\nfrom os.path import join\nprint(join('a', 'b'), os.path.basename('x/y'))\n",
    "from os.path import basename\nimport os.path\nprint(basename('p/q'), os.path.join('a', 'b'), os.sep)\n",
    "from collections.abc import Mapping\nimport collections.abc\nprint(isinstance({}, Mapping), collections.abc.Sized.__name__, collections.OrderedDict.__name__)\n",
    "import urllib.parse\nfrom urllib.parse import quote\nprint(quote('a b'), urllib.parse.unquote('a%20b'))\n",
    "import json.decoder\nfrom json.decoder import JSONDecodeError\nimport json\nprint(JSONDecodeError.__name__, json.decoder.__name__, json.dumps(1))\n",
    "import xml.etree.ElementTree as ET\nfrom xml.etree import ElementTree\nprint(ET is ElementTree, ET.Element('a').tag)\n",
    "wcount = 0\nwhile True:\n    wcount += 1\n    if wcount > 3:\n        break\nelse:\n    print('never')\nfor q in range(2):\n    pass\nelse:\n    print('for-else', q, wcount)\n",
]


def plant(rng, src):
    lines = src.split('\n')
    spots = [i for i, l in enumerate(lines) if l and not l[0].isspace() and not l.startswith(('else', 'elif', 'except', 'finally', ')', ']', '}'))]
    spots.append(len(lines) if lines[-1] != '' else len(lines) - 1)
    for _ in range(6):
        i = rng.choice(spots)
        body = rng.choice(PLANTS)
        cand = '\n'.join(lines[:i] + body.split('\n') + lines[i:])
        try:
            compile(cand, 'answer.py', 'exec')
            return cand
        except SyntaxError:
            continue
    return src + ("\n" if not src.endswith('\n') else '') + rng.choice(PLANTS) + '\n'


def describe(v, depth=0):
    """comparable description of a student value"""
    import types
    if depth > 6:
        return '...'
    if isinstance(v, (types.FunctionType, types.BuiltinFunctionType)):
        return 'function:' + getattr(v, '__name__', '?')
    if isinstance(v, type):
        return 'class:' + v.__name__
    if isinstance(v, types.ModuleType):
        return 'module:' + v.__name__
    if isinstance(v, float):
        return 'float:' + repr(v)
    if isinstance(v, int) and not isinstance(v, bool) and v.bit_length() > 8000:
        return 'int:bits=%d:residue=%d' % (v.bit_length(), v % 2305843009213693951)      # repr() of such a value raises in 3.12
    if isinstance(v, (str, bytes)) and len(v) > 100000:
        return '%s:len=%d:hash=%s' % (type(v).__name__, len(v), hash(v))
    if v is None or isinstance(v, (bool, int, str, bytes, complex)):
        return type(v).__name__ + ':' + repr(v)
    if isinstance(v, (list, tuple)):
        return type(v).__name__ + ':[' + ', '.join(describe(x, depth + 1) for x in v) + ']'
    if isinstance(v, (set, frozenset)):
        return type(v).__name__ + ':{' + ', '.join(sorted(describe(x, depth + 1) for x in v)) + '}'
    if isinstance(v, dict):
        return 'dict:{' + ', '.join('%s=>%s' % (describe(k, depth + 1), describe(x, depth + 1)) for k, x in v.items()) + '}'
    if isinstance(v, range):
        return repr(v)
    if isinstance(v, BaseException):
        return 'exception:' + type(v).__name__
    try:
        d = vars(v)
        return 'object:%s(%s)' % (type(v).__name__, ', '.join('%s=%s' % (k, describe(x, depth + 1)) for k, x in sorted(d.items())))
    except TypeError:
        return 'object:' + type(v).__name__


class TooMuchOutput(BaseException):
    """The generated program prints megabytes (a doubling string in a loop): not a case worth comparing, and never a verdict."""


class BoundedOut(io.StringIO):
    LIMIT = 2_000_000

    def write(self, s):
        if self.tell() + len(s) > self.LIMIT:
            raise TooMuchOutput()
        return super().write(s)


def limit_memory_growth(extra=1 << 30):
    """A generated program may double a list in nested loops: while the reference runs, the address space may grow by `extra`
    bytes only, so that the program ends in a MemoryError (and is skipped) instead of taking the worker down."""
    try:
        import resource
        soft, hard = resource.getrlimit(resource.RLIMIT_AS)
        with open('/proc/self/statm') as f:
            now = int(f.read().split()[0]) * resource.getpagesize()
        cap = now + extra
        if hard != resource.RLIM_INFINITY:
            cap = min(cap, hard)
        resource.setrlimit(resource.RLIMIT_AS, (cap, hard))
        return lambda: resource.setrlimit(resource.RLIMIT_AS, (soft, hard))
    except Exception:
        return lambda: None


def reference_run(src, inputs, ns=None):
    q = list(inputs)

    def fake_input(prompt=''):
        print(prompt)
        return q.pop(0) if q else '0'
    b = dict(vars(builtins))
    b['input'] = fake_input
    if ns is None:
        ns = {'__name__': '__main__'}
    ns['__builtins__'] = b
    buf = BoundedOut()
    exc = None
    line = None
    real_sleep = time.sleep
    restore_limit = limit_memory_growth()
    try:
        time.sleep = lambda *a, **k: None
        with contextlib.redirect_stdout(buf):
            try:
                exec(compile(src, 'answer.py', 'exec'), ns)
            except TooMuchOutput:
                raise
            except BaseException as e:
                exc = e
                tb = traceback.extract_tb(e.__traceback__)
                if tb and tb[-1].filename == 'answer.py':
                    line = tb[-1].lineno
    finally:
        time.sleep = real_sleep
        restore_limit()
    return ns, buf.getvalue(), exc, line, q


def unwrap(x):
    from pedal.sandbox.result import is_sandbox_result
    try:
        if is_sandbox_result(x):
            return object.__getattribute__(x, 'value')
    except Exception:
        pass
    return x


PEDAL_PUTS_THESE_IN_THE_NAMESPACE = {'input', 'compile', 'eval', 'exec', 'globals', 'exit', 'open', '__import__'}


def globals_of(ns, own=frozenset()):
    """student globals; a name pedal itself plants in the namespace counts only when the student's program defines it (`own`)"""
    return {k: noaddr(describe(v)) for k, v in ns.items() if (k not in NOT_STUDENT or k in own) and not k.startswith('_temporary_')}


HOSTILE_ARGS = [
    ("long-list", "[list(range(120))]"), ("long-str", "['x' * 300]"), ("nested-long", "[{'k': ['v' * 50] * 6}]"),
    ("inf", "[float('inf')]"), ("nan", "[float('nan')]"), ("neg-zero", "[-0.0]"), ("big-int", "[10 ** 40]"),
    ("none", "[None]"), ("tuple", "[(1, 'a', 2.5)]"), ("set", "[{3, 1, 2}]"), ("bytes", "[b'ab']"), ("bool", "[True]"),
    ("str-quotes", "['it\\'s \"q\"\\n\\\\']"), ("empty", "[]"), ("two-long", "['y' * 250, list(range(100))]"),
    # values whose repr() is not an expression that evaluates back to them in the student's namespace
    ("decimal", "[__import__('decimal').Decimal('1.5')]"), ("fraction", "[__import__('fractions').Fraction(1, 3)]"),
    ("namedtuple", "[__import__('collections').namedtuple('P', 'x y')(1, 2)]"), ("defaultdict", "[__import__('collections').defaultdict(int, a=1)]"),
    ("ordered-dict", "[__import__('collections').OrderedDict(a=1)]"), ("type-object", "[int]"), ("builtin-function", "[len]"),
    ("plain-object", "[object()]"), ("lambda", "[lambda: 1]"), ("range", "[range(3)]"), ("bytearray", "[bytearray(b'ab')]"), ("complex", "[2+3j]"),
    ("ellipsis", "[...]"), ("frozenset", "[frozenset({1, 2})]"), ("empty-set", "[set()]"), ("nested-inf", "[[float('inf'), {'k': float('nan')}]]"),
    ("date", "[__import__('datetime').date(2020, 1, 2)]"), ("generator", "[(i for i in range(3))]"), ("iterator", "[iter([1, 2])]"),
    # values that are falsy (empty) without being builtin literals
    ("empty-deque", "[__import__('collections').deque()]"), ("decimal-zero", "[__import__('decimal').Decimal(0)]"),
    ("fraction-zero", "[__import__('fractions').Fraction(0)]"), ("empty-counter", "[__import__('collections').Counter()]"),
    ("empty-containers", "[(), [], {}, set(), frozenset(), bytearray(), '', b'', 0, 0.0, None, False]"),
    ("exception-object", "[ValueError('v')]"), ("module", "[__import__('math')]"), ("memoryview", "[memoryview(b'ab')]"),
    ("huge-int", "[10 ** 5000]"), ("huge-int-in-a-list", "[[1, 10 ** 4400]]"), ("very-long-str", "['z' * 100000]"),
]
ALIASED_ARGS = [("same-list-twice", "(lambda x: [x, x])([1, 2])"), ("same-dict-twice", "(lambda x: [x, x])({'k': 1})"),
                ("list-and-list-holding-it", "(lambda x: [x, [x]])([1])"), ("pair-of-the-same-list-inside-one-argument", "(lambda x: [[x, x]])([1, 2])"),
                ("dict-with-the-same-list-twice", "(lambda x: [{'a': x, 'b': x}])([1])"), ("list-containing-itself", "(lambda a: (a.append(a), [a])[1])([5])")]


def check_program(ctx, case):
    from pedal.core.commands import clear_report, contextualize_report
    from pedal.core.report import MAIN_REPORT
    from pedal.sandbox import commands as sbx
    src, inputs, functions = case['src'], case['inputs'], case['functions']
    try:
        ref_ns, ref_out, ref_exc, ref_line, ref_left = reference_run(src, inputs)
    except TooMuchOutput:
        ctx.count('programs_skipped_(reference_prints_megabytes)')
        return
    if isinstance(ref_exc, MemoryError):
        ctx.count('programs_skipped_(reference_runs_out_of_memory)')
        return
    clear_report()
    contextualize_report(src)
    try:
        sbx.run(inputs=list(inputs))
    except BaseException as e:
        ctx.count('run_raised_(C04 territory)')
        return
    sandbox = sbx.get_sandbox()
    ctx.count('programs_compared')
    feats = case.get('features', [])
    for f in feats:
        ctx.seen('program_features', f)
    # ---- output ----------------------------------------------------------------------------------------
    out = sbx.get_raw_output()
    if out != ref_out:
        ctx.violation('C06|output-differs|%s' % out_shape(ref_out, out), case, 'CPython %r\n sandbox %r' % (ref_out[-400:], out[-400:]))
    # ---- outcome ---------------------------------------------------------------------------------------
    exc = unwrap(sbx.get_exception())
    want = type(ref_exc).__name__ if ref_exc is not None else None
    got = type(exc).__name__ if exc is not None else None
    if ref_exc is not None:
        ctx.count('failing_programs')
        ctx.seen('failure_classes', want)
    if want != got:
        ctx.violation('C06|outcome-differs|cpython=%s|sandbox=%s' % (want, got), case, 'CPython %r, sandbox %r' % (ref_exc, exc))
    elif ref_exc is not None and ref_line is not None:
        rt = [f for f in MAIN_REPORT.feedback if str(f.category or '').lower() == 'runtime']
        got_line = getattr(rt[-1].location, 'line', None) if rt else None
        if got_line != ref_line:
            ctx.violation('C06|exception-line-differs|%s' % want, case, 'CPython line %r, sandbox feedback line %r' % (ref_line, got_line))
        ctx.count('exception_lines_compared')
    # ---- globals ---------------------------------------------------------------------------------------
    g_ref = globals_of(ref_ns, PEDAL_PUTS_THESE_IN_THE_NAMESPACE)       # plain CPython has them only if the program binds them
    g_sb = globals_of(sandbox.data, PEDAL_PUTS_THESE_IN_THE_NAMESPACE & set(g_ref))
    if set(g_ref) != set(g_sb):
        ctx.violation('C06|global-names-differ|%s' % ('extra-in-sandbox' if set(g_sb) - set(g_ref) else 'missing-in-sandbox'), case,
                      'only CPython: %s; only sandbox: %s' % (sorted(set(g_ref) - set(g_sb)), sorted(set(g_sb) - set(g_ref))))
    else:
        diff = [k for k in g_ref if g_ref[k] != g_sb[k]]
        if diff:
            k = diff[0]
            ctx.violation('C06|global-value-differs|%s' % g_ref[k].split(':')[0], case, '%s: CPython %s, sandbox %s' % (k, g_ref[k][:200], g_sb[k][:200]))
    if list(sbx.get_input()) != ref_left:
        ctx.violation('C06|inputs-left-differ', case, 'CPython leaves %r, sandbox %r' % (ref_left, sbx.get_input()))
    nt = None
    if ref_out and g_ref:
        nt = 'P:' + src + repr(inputs)
    ctx.case(nt)
    if ctx.evaluations % 173 == 0:
        ctx.sample({'src': src[:700], 'inputs': inputs, 'cpython': {'output': ref_out[-200:], 'exception': want, 'line': ref_line},
                    'sandbox': {'output': out[-200:], 'exception': got}})
    # ---- the same program again with another input queue (the first one may have left unread inputs) ----
    if 'input(' in src and case.get('inputs2') is not None:
        try:
            ref_ns2, ref_out2, ref_exc2, ref_line2, ref_left2 = reference_run(src, case['inputs2'], ns=ref_ns)   # the sandbox namespace persists too
        except TooMuchOutput:
            return
        sbx.clear_output()
        try:
            sbx.run(inputs=list(case['inputs2']))
        except BaseException:
            return
        ctx.count('second_runs_with_new_inputs')
        out2 = sbx.get_raw_output()
        if out2 != ref_out2:
            ctx.violation('C06|output-differs-on-second-run-with-new-inputs', case,
                          'inputs %r then %r: CPython %r\n sandbox %r' % (inputs, case['inputs2'], ref_out2[-300:], out2[-300:]))
            return
        ref_ns = ref_ns2
        if type(ref_exc2) is not type(ref_exc):
            return
    # ---- calls -----------------------------------------------------------------------------------------
    if ref_exc is not None:
        return
    rng = case.get('_rng')
    for fname, argsets in functions:
        if fname not in ref_ns or not callable(ref_ns[fname]):
            continue
        sets = [('generated', a) for a in argsets]
        if rng is not None:
            sets.append(rng.choice(HOSTILE_ARGS))
            sets.append(rng.choice(HOSTILE_ARGS))
        else:
            sets.extend(case.get('extra_args', []))
        for label, argsrc in sets:
            before = sum(v['count'] for v in ctx.violations.values())
            call_once(ctx, case, sandbox, ref_ns, fname, label, argsrc, rng)
            if sum(v['count'] for v in ctx.violations.values()) != before:
                return      # the two worlds have diverged: later differences would only be consequences


def noaddr(text):
    import re
    return re.sub(r' at 0x[0-9a-fA-F]+', ' at 0x?', text)


def safe_copy(args):
    try:
        return copy.deepcopy(args)
    except Exception:
        # generators, modules, memoryviews: build the argument list afresh is not possible here; share (they are only read)
        return list(args)


def call_once(ctx, case, sandbox, ref_ns, fname, label, argsrc, rng):
    from pedal.sandbox import commands as sbx
    sb_args = None
    given_kwargs = {}
    sb_kwargs = None
    if argsrc.startswith('kw:'):
        # "kw:<expression giving (positional list, keyword dict)>"
        try:
            args, given_kwargs = eval(argsrc[3:], {'__builtins__': builtins})
            sb_args, sb_kwargs = eval(argsrc[3:], {'__builtins__': builtins})
        except Exception:
            ctx.count('argument_source_not_evaluable')
            return
    try:
        if argsrc.startswith('kw:'):
            pass
        elif argsrc.startswith('ns:'):
            # built from the program's own classes: one object per world, each of that world's class
            args = eval(argsrc[3:], dict(ref_ns))
            sb_args = eval(argsrc[3:], dict(sandbox.data))
        else:
            args = eval(argsrc, {'__builtins__': builtins})
            sb_args = eval(argsrc, {'__builtins__': builtins})      # a second, equal argument list (iterators get used up)
    except Exception:
        ctx.count('argument_source_not_evaluable')
        return
    target = '_'
    kwargs = {}
    variant = 'plain'
    if rng is not None:
        r = rng.random()
        if r < 0.15:
            # a target that collides with a student global: afterwards the global must hold the result in both worlds
            names = [k for k in ref_ns if k not in NOT_STUDENT and not callable(ref_ns[k]) and k.isidentifier() and not k.startswith('__')]
            if names:
                target = rng.choice(sorted(names))
                variant = 'target-collides'
        elif r < 0.25:
            target = 'result_value'
            variant = 'named-target'
    sub = {'fname': fname, 'label': label, 'args': argsrc, 'variant': variant, 'target': target}
    keys_before = set(sandbox.data.keys())
    # reference
    buf = io.StringIO()
    ref_res = ref_exc = None
    with contextlib.redirect_stdout(buf):
        try:
            ref_res = ref_ns[fname](*(args if argsrc.startswith(('ns:', 'kw:')) else safe_copy(args)), **dict(kwargs, **given_kwargs))
        except BaseException as e:
            ref_exc = e
    if ref_exc is None and target != '_':
        ref_ns[target] = ref_res
    sbx.clear_output()
    try:
        res = sbx.call(fname, *(safe_copy(args) if sb_args is None else sb_args), target=target, **dict(kwargs, **(sb_kwargs or {})))
    except BaseException as e:
        ctx.count('call_raised_(C04 territory)')
        if ref_exc is None:
            # called directly the function returns a value: call() raising into the grader is not the same outcome
            ctx.violation('C06|call-itself-raised|%s|args=%s' % (type(e).__name__, label), dict(case, call=sub),
                          'CPython returns %r; call() raised %s' % (ref_res, traceback.format_exception_only(type(e), e)[-1][:200]))
        return
    ctx.count('calls_compared')
    ctx.seen('call_arg_classes', label)
    ctx.seen('call_variants', variant)
    key = 'args=%s|%s' % (label if label != 'generated' else 'generated', variant)
    exc = unwrap(sbx.get_exception())
    if (ref_exc is None) != (exc is None) or (ref_exc is not None and type(ref_exc).__name__ != type(exc).__name__):
        ctx.violation('C06|call-outcome-differs|args=%s|sandbox=%s' % (label, type(exc).__name__ if exc else 'returns'),
                      dict(case, call=sub), 'CPython %r / %r, sandbox %r / %r' % (ref_res, ref_exc, unwrap(res), exc))
    elif ref_exc is None:
        a, b = noaddr(describe(ref_res)), noaddr(describe(unwrap(res)))
        if a != b:
            ctx.violation('C06|call-result-differs|%s' % key, dict(case, call=sub), 'CPython %s, sandbox %s' % (a[:300], b[:300]))
    out = sbx.get_raw_output()
    if noaddr(out) != noaddr(buf.getvalue()):
        ctx.violation('C06|call-output-differs|%s' % key, dict(case, call=sub), 'CPython %r, sandbox %r' % (buf.getvalue()[-300:], out[-300:]))
    keys_after = set(sandbox.data.keys())
    leaked = [k for k in keys_after - keys_before if k.startswith('_temporary_')]
    if leaked:
        ctx.violation('C06|temporaries-not-purged', dict(case, call=sub), leaked)
    extra = keys_after - keys_before - {target} - set(leaked) - {'__warningregistry__'}   # CPython's own warning bookkeeping
    if extra:
        ctx.violation('C06|call-left-new-names', dict(case, call=sub), sorted(extra))
    # globals still equal after the call (mutations through arguments, target binding)
    g_ref, g_sb = globals_of(ref_ns), globals_of(sandbox.data)
    g_sb.pop('_', None); g_ref.pop('_', None)
    if g_ref != g_sb:
        k = next(iter(set(g_ref) ^ set(g_sb)), None) or [k for k in g_ref if g_ref[k] != g_sb.get(k)][0]
        ctx.violation('C06|globals-differ-after-call|%s' % key, dict(case, call=sub), '%s: CPython %s, sandbox %s' % (k, g_ref.get(k), g_sb.get(k)))
    ctx.case('C:' + case['src'] + fname + argsrc + variant)


def out_shape(a, b):
    if a.replace('\n', '') == b.replace('\n', ''):
        return 'newlines'
    if b.startswith(a) or a.startswith(b):
        return 'prefix'
    return 'text'


def subprocess_validate(ctx, src, inputs):
    """the reference itself against a real interpreter process"""
    import os, subprocess, sys, tempfile
    d = tempfile.mkdtemp(prefix='verif-c06-')
    try:
        with open(os.path.join(d, 'answer.py'), 'w') as f:
            f.write(src)
        p = subprocess.run([sys.executable, 'answer.py'], cwd=d, input=''.join(i + '\n' for i in inputs) + '0\n' * 20,
                           stdout=subprocess.PIPE, stderr=subprocess.PIPE, text=True, timeout=30)
        try:
            _, ref_out, ref_exc, _, _ = reference_run(src, inputs)
        except TooMuchOutput:
            return
        # a real input() writes the prompt without newline: normalise both by dropping prompts is not possible in general;
        # only programs without input() are validated
        if 'input(' in src:
            return
        ctx.count('subprocess_validations')
        if p.stdout != ref_out:
            ctx.inconclusive('harness reference disagrees with a real python process on output: %r vs %r' % (p.stdout[-200:], ref_out[-200:]))
        failed = p.returncode != 0
        expect_failed = ref_exc is not None
        if isinstance(ref_exc, SystemExit):
            expect_failed = bool(ref_exc.code)
        if failed != expect_failed:
            ctx.inconclusive('harness reference disagrees with a real python process on outcome (rc=%s, ref=%r)' % (p.returncode, ref_exc))
    finally:
        import shutil
        shutil.rmtree(d, ignore_errors=True)


def special_programs():
    """hand-written programs for corners the generator does not reach: (name, source, [(function, [argument sources])])"""
    out = []
    for name in sorted(PEDAL_PUTS_THESE_IN_THE_NAMESPACE - {'__import__'}):
        # the student's own function happens to be called like a builtin that pedal replaces
        out.append(('own-function-named-like-a-replaced-builtin', "def %s(x):\n    return x * 2\nshadow_v = %s(3)\nprint(shadow_v)\n" % (name, name),
                    [(name, ['[5]', '[7]'])]))
    out.append(('own-variable-named-like-a-replaced-builtin', "input = 5\nopen = [1, 2]\nprint(input, open)\ndef total():\n    return input + len(open)\n",
                [('total', ['[]', '[]'])]))
    for base in ('KeyError', 'LookupError', 'ValueError', 'IndexError', 'ZeroDivisionError', 'AttributeError', 'NameError', 'TypeError', 'OSError', 'Exception'):
        # the program ends with an exception of a class of its own, derived from a builtin one
        out.append(('uncaught-exception-of-an-own-class-derived-from-%s' % base,
                    "class OutOfStock(%s):\n    pass\nstock = {'apple': 2}\ndef take(item):\n    if item not in stock:\n        raise OutOfStock(item)\n    return stock[item]\nprint(take('apple'))\ntake('pear')\n" % base,
                    [('take', ["['apple']", "['pear']"])]))
    for depth in (2, 5, 7, 8, 9, 12, 30, 63, 64, 70, 150, 400):
        out.append(('failure-under-%d-frames' % depth,
                    "def dig(n):\n    if n == 0:\n        return [1, 2][5]\n    below = dig(n - 1)\n    return below + 1\nprint('start')\ndig(%d)\n" % depth,
                    [('dig', ['[%d]' % depth])]))
    chain = ''.join("def step%d(v):\n    w = v + 1\n    return step%d(w)\n" % (i, i + 1) for i in range(10)) + \
        "def step10(v):\n    return 100 // (v - 10)\n"
    out.append(('failure-at-the-end-of-a-10-function-chain', chain + "print(step0(5))\nprint(step0(0))\n", [('step0', ['[0]', '[3]']), ('step4', ['[6]'])]))
    out.append(('own-class-instance-as-argument', "class Dog:\n    def __init__(self, name, tricks):\n        self.name = name\n        self.tricks = tricks\n"
                "def describe_dog(d):\n    return d.name + ':' + ','.join(d.tricks)\ndef teach(d, trick):\n    d.tricks.append(trick)\n    return len(d.tricks)\n"
                "def same(a, b):\n    return a is b\nrex = Dog('rex', ['sit'])\nprint(describe_dog(rex))\n",
                [('describe_dog', ["ns:[Dog('fido', ['roll'])]"]), ('teach', ["ns:[Dog('fido', []), 'beg']", "ns:[rex, 'beg']"]), ('same', ["ns:[rex, rex]", "ns:[Dog('a', []), Dog('a', [])]"])]))
    out.append(('aliased-arguments', "def grow(a, b):\n    a.append(1)\n    return len(b)\ndef same(a, b):\n    return a is b\ndef put(d, e):\n    d['new'] = 1\n    return sorted(e)\n",
                [('grow', [a for _, a in ALIASED_ARGS[:1]] + ['[[1], [1]]']), ('same', [a for _, a in ALIASED_ARGS] + ['[[1], [1]]']), ('put', [ALIASED_ARGS[1][1]])]))
    out.append(('dotted-module-imported-in-both-forms', "import os.path\nimport collections\ndef base(p):\n    from os.path import basename\n    return basename(p)\n"
                "def kinds(v):\n    from collections.abc import Sized, Mapping\n    import collections.abc\n    return [isinstance(v, Sized), isinstance(v, Mapping), collections.abc.Sized is Sized]\n"
                "print(os.path.join('a', 'b'), collections.OrderedDict.__name__)\n", [('base', ["['x/y']", "['q']"]), ('kinds', ["[{}]", "[[1]]"])]))
    out.append(('dotted-module-from-form-first', "from os.path import join\ndef base(p):\n    import os.path\n    return os.path.basename(p) + os.sep\nprint(join('a', 'b'))\n",
                [('base', ["['x/y']"])]))
    out.append(('keyword-arguments', "def grow(a, b=None, c=None):\n    a.append(1)\n    return [len(a), None if b is None else len(b), None if c is None else len(c)]\n"
                "def same(a=None, b=None):\n    return a is b\ndef label(text, times=2, sep='-'):\n    return sep.join([text] * times)\n",
                [('grow', ["kw:(lambda x: ([x], {'b': x}))([5])", "kw:(lambda x: ([x], {'b': [5], 'c': x}))([5])", "kw:([[1]], {'b': [1]})", "kw:(lambda x: ([], {'a': x, 'b': x}))([])"]),
                 ('same', ["kw:(lambda x: ([], {'a': x, 'b': x}))([1])", "kw:(lambda x: ([x], {'b': x}))({'k': 1})", "kw:([], {'a': [1], 'b': [1]})", "kw:([], {})"]),
                 ('label', ["kw:(['ab'], {'sep': '+'})", "kw:([], {'text': 'q', 'times': 3})", "kw:(['x', 1], {})"])]))
    out.append(('aliasing-inside-one-argument', "def first_grows(pair):\n    pair[0].append(9)\n    return len(pair[1])\ndef same_inside(d):\n    return d['a'] is d['b']\n"
                "def depth(a):\n    return 1 if a[1] is a else 0\n",
                [('first_grows', [ALIASED_ARGS[3][1], '[[[1], [1]]]']), ('same_inside', [ALIASED_ARGS[4][1]]), ('depth', [ALIASED_ARGS[5][1]])]))
    out.append(('aliasing-across-arguments-inside-them', "def inner_same(x, y):\n    return x[0] is y[0]\ndef grow_inner(x, y):\n    x[0].append(1)\n    return len(y[0])\n"
                "def d_same(d, l):\n    return d['k'] is l[0]\ndef deep(x, y):\n    x[0][0].append(7)\n    return y[1]['q']\n",
                [('inner_same', ["(lambda a: [[a], [a]])([])", "(lambda a: [[a], [a]])([1, 2])", "(lambda a: [[a], (a,)])([3])", "[[[1]], [[1]]]", "kw:(lambda a: ([[a]], {'y': [a]}))([1])"]),
                 ('grow_inner', ["(lambda a: [[a], [a]])([])", "(lambda a: [[a, 5], (0, a)[1:]])([2])", "[[[]], [[]]]"]),
                 ('d_same', ["(lambda a: [{'k': a}, [a]])([1])", "(lambda a: [{'k': a}, [a]])({'z': 1})", "[{'k': [1]}, [[1]]]"]),
                 ('deep', ["(lambda a: [[[a]], [0, {'q': a}]])([1])"])]))
    out.append(('own-variable-named-like-a-builtin-type', "set = 5\nrange = 'r'\nfrozenset = None\nbytearray = 1\ndef kind(v):\n    return [type(v).__name__, len(v)]\n"
                "def first(v):\n    return [type(x).__name__ for x in v][:1]\nprint(set, range, frozenset, bytearray)\n",
                [('kind', ['[set()]', '[{1, 2}]', '[range(3)]', '[frozenset([1])]', "[bytearray(b'ab')]", '[{1: set()}]', '[[range(2)]]', '[(frozenset(), 1)]']),
                 ('first', ['[[set()]]', '[[range(1)]]', "[{'k': bytearray(b'')}]"])]))
    out.append(('falsy-instances-and-shared-empties', "class Bag:\n    def __init__(self):\n        self.items = []\n    def __len__(self):\n        return len(self.items)\n"
                "class Off:\n    def __bool__(self):\n        return False\ndef kind(v):\n    return type(v).__name__\ndef fill(rows):\n    rows[0].append(1)\n    return [len(r) for r in rows]\n"
                "def both(a, b):\n    a.append(1)\n    return len(b)\nempty_bag = Bag()\nprint(kind(empty_bag))\n",
                [('kind', ["ns:[Bag()]", "ns:[Off()]", "ns:[empty_bag]", "ns:[[Bag()]]"]), ('fill', ["[[[]] * 3]", "(lambda e: [[e, e, e]])([])", "[[[], [], []]]", "(lambda e: [(e, e)])({})"]),
                 ('both', ["(lambda e: [e, e])([])", "[[], []]"])]))
    out.append(('function-deletes-a-global-name-that-pedal-uses-for-its-argument', "def tidy(v, w=None):\n    global _temporary_arg_0, _temporary_kwarg_w\n    for attempt in (0, 1):\n        try:\n"
                "            if attempt == 0:\n                del _temporary_arg_0\n            else:\n                del _temporary_kwarg_w\n        except NameError:\n            pass\n    return 1\n",
                [('tidy', ['[object()]', "[list(range(200))]", "kw:([object()], {'w': object()})", '[5]'])]))
    out.append(('any-value-passed-through', "def ident(v):\n    return v\ndef kind(v):\n    return type(v).__name__\ndef both(v, w=None):\n    return [kind(v), kind(w)]\n",
                [('ident', [a for _, a in HOSTILE_ARGS]), ('kind', [a for _, a in HOSTILE_ARGS]), ('both', ["[object(), 5]", "[3, len]"])]))
    out.append(('failure-in-a-method-chain', "class Node:\n    def __init__(self, nxt):\n        self.nxt = nxt\n    def depth(self):\n        if self.nxt is None:\n"
                "            return self.missing\n        return 1 + self.nxt.depth()\nhead = None\nfor _ in range(9):\n    head = Node(head)\nprint(head.depth())\n", []))
    return out


def check_results_passed_back(ctx):
    """the value one call returned (a result proxy) handed to the next call: the student's function must see the value itself"""
    from pedal.core.commands import clear_report, contextualize_report
    from pedal.sandbox import commands as sbx
    src = ("def make(n):\n    return list(range(n))\ndef kind(v):\n    return type(v).__name__\ndef is_list(v):\n    return type(v) is list\n"
           "def pick(seq, i):\n    return seq[i]\ndef third():\n    return 2\ndef text(n):\n    return 'ab' * n\n")
    ns = {}
    exec(compile(src, 'answer.py', 'exec'), ns)
    clear_report()
    contextualize_report(src)
    sbx.run()
    for n in (3, 150):          # a short and a long (> 200 characters) value
        case = {'src': src, 'scenario': 'result-passed-back', 'n': n}
        try:
            made = sbx.call('make', n)
            got = [unwrap(sbx.call('kind', made)), unwrap(sbx.call('is_list', made)), unwrap(sbx.call('pick', made, sbx.call('third'))),
                   unwrap(sbx.call('pick', 'abcdef', sbx.call('third'))), unwrap(sbx.call('kind', sbx.call('text', n)))]
            e = sbx.get_exception()
        except BaseException as ex:
            ctx.violation('C06|call-raised-with-an-earlier-result-as-argument|%s' % type(ex).__name__, case, traceback.format_exc()[-400:])
            continue
        want = [ns['kind'](ns['make'](n)), True, ns['make'](n)[2], 'c', 'str']
        ctx.count('results_passed_back_checked')
        if e is not None or got != want:
            ctx.violation('C06|call-result-differs|earlier-result-as-argument|%s' % ('long' if n > 100 else 'short'), case,
                          'direct calls give %r; through the sandbox %r (exception %r)' % (want, got, e))


def check_calls_with_inputs(ctx):
    """'the same inputs': the inputs given to one call (or run) are what the student's code reads during it, in order - whatever an
    earlier execution in the sandbox left unread. Histories of run(inputs=)/call(inputs=)/evaluate over a program that reads."""
    from pedal.core.commands import clear_report, contextualize_report
    from pedal.sandbox import commands as sbx
    src = ("def ask(n=1):\n    got = []\n    for _ in range(n):\n        got.append(input('next? '))\n    return got\n"
           "def total(n):\n    return sum(int(input()) for _ in range(n))\n"
           "first = input('first? ')\n")
    rng = ctx.rng
    for trial in range(ctx.pick(12, 200)):
        steps = []
        for _ in range(rng.randint(2, 6)):
            kind = rng.choice(['run', 'call-ask', 'call-total', 'call-ask-kw', 'run', 'run-with-the-real-console'])
            given = [str(rng.randrange(1, 50)) for _ in range(rng.randint(0, 4))]
            # (one line of input may be given by itself, as text or as a number, instead of as a list)
            form = rng.choice(['list', 'one-string', 'one-number']) if len(given) == 1 else 'list'
            steps.append((kind, given, rng.randint(0, 3), form))
        case = {'src': src, 'scenario': 'calls-with-inputs', 'steps': steps}
        _calls_with_inputs_history(ctx, case)


def _calls_with_inputs_history(ctx, case):
    from pedal.core.commands import clear_report, contextualize_report
    from pedal.sandbox import commands as sbx
    src = case['src']
    clear_report()
    contextualize_report(src)
    ref_ns = None
    for idx, step in enumerate(case['steps']):
        kind, given, n = step[:3]
        form = step[3] if len(step) > 3 else 'list'
        handed = list(given) if form == 'list' else (given[0] if form == 'one-string' else int(given[0]))
        queue = list(given)

        def fake_input(prompt='', queue=queue):
            return queue.pop(0) if queue else '0'
        where = dict(case, upto=idx)
        try:
            if kind in ('run', 'run-with-the-real-console') or ref_ns is None:
                kind = 'run' if kind != 'run-with-the-real-console' else kind
                ref_ns = {'__name__': '__main__', 'input': fake_input}
                with contextlib.redirect_stdout(io.StringIO()):
                    exec(compile(src, 'answer.py', 'exec'), ref_ns)
                want = ref_ns['first']
                if kind == 'run':
                    sbx.run(inputs=handed)
                else:
                    # the program may print to the real console, but the inputs it was GIVEN are still what it reads
                    saved_stdin = sys.stdin
                    sys.stdin = io.StringIO('')
                    try:
                        with contextlib.redirect_stdout(io.StringIO()):
                            sbx.get_sandbox().run(inputs=handed, real_io=True)
                    finally:
                        sys.stdin = saved_stdin
                    if not given:
                        # (nothing was given: it reads the real console, which is at its end here - CPython's input() raises EOFError)
                        ctx.count('runs_with_the_real_console_and_no_inputs_(not judged)')
                        ref_ns = None
                        continue
                got = unwrap(sbx.get_sandbox().data.get('first'))
            else:
                ref_ns['input'] = fake_input
                fname = 'total' if kind == 'call-total' else 'ask'
                with contextlib.redirect_stdout(io.StringIO()):
                    want = ref_ns[fname](n)
                if kind == 'call-ask-kw':
                    got = unwrap(sbx.call(fname, n=n, inputs=handed))
                else:
                    got = unwrap(sbx.call(fname, n, inputs=handed))
            e = sbx.get_exception()
        except BaseException as ex:
            ctx.violation('C06|call-with-inputs-raised|%s|%s' % (kind, type(ex).__name__), where, traceback.format_exc()[-400:])
            return
        ctx.count('executions_with_given_inputs')
        if e is not None or got != want:
            ctx.violation('C06|result-differs-with-given-inputs|%s|%s%s' % (kind, 'after-unread-inputs' if idx else 'first', '' if form == 'list' else '|given-as-' + form), where,
                          'with inputs %r CPython gives %r; the sandbox %r (exception %r)' % (given, want, got, e))
            return
    ctx.case('I:' + repr(case['steps']))


def check_environment_inputs(ctx):
    """the inputs handed to an environment (the way a platform passes its input box along) are the inputs of the program's run:
    same printed text as plain CPython fed those inputs"""
    from pedal.core.commands import clear_report
    from pedal.sandbox import commands as sbx
    from pedal.core.report import Report
    from pedal.environments.blockpy import BlockPyEnvironment
    from pedal.environments.gradescope import GradeScopeEnvironment
    from pedal.environments.vpl import VPLEnvironment
    from pedal.environments.nbgrader import NBGraderEnvironment
    src = "name = input('Name? ')\nage = input('Age? ')\nprint('Hello', name, '(' + age + ')')\n"
    for env_name, Env in (('blockpy', BlockPyEnvironment), ('gradescope', GradeScopeEnvironment), ('vpl', VPLEnvironment), ('nbgrader', NBGraderEnvironment)):
        for given in (['Ada Lovelace', '36'], ['Ada', '36'], 'Ada Lovelace', '36', ['  padded  ', 'x y z'], ['only one']):
            for which_report in ('default', 'own'):
                # (a grader that keeps each submission's report to itself hands the environment that report)
                as_list = [given] if isinstance(given, str) else list(given)
                case = {'scenario': 'environment-inputs', 'environment': env_name, 'inputs': given, 'src': src, 'report': which_report}
                try:
                    _, ref_out, ref_exc, _, _ = reference_run(src, as_list)
                    clear_report()
                    kw = {} if which_report == 'default' else {'report': Report()}
                    with contextlib.redirect_stdout(io.StringIO()):
                        Env(main_code=src, inputs=given, skip_tifa=True, skip_run=False, **kw)
                    out = sbx.get_raw_output(**kw)
                    e = sbx.get_exception(**kw)
                    left = sbx.get_input() if kw else []
                except BaseException as ex:
                    ctx.violation('C06|environment-with-inputs-raised|%s|%s|%s-report' % (env_name, type(ex).__name__, which_report), case, traceback.format_exc()[-400:])
                    continue
                ctx.count('environment_runs_with_inputs')
                ctx.case('envinputs:%s:%r:%s' % (env_name, given, which_report))
                want_lines = [l for l in ref_out.split('\n') if l.startswith('Hello')]
                got_lines = [l for l in (out or '').split('\n') if l.startswith('Hello')]
                if e is not None or got_lines != want_lines:
                    ctx.violation('C06|output-differs-with-the-inputs-given-to-the-environment|%s|%s%s' % (env_name, 'one-string' if isinstance(given, str) else 'list', '' if which_report == 'default' else '|own-report'), case,
                                  'CPython prints %r; through the environment %r (exception %r)' % (want_lines, got_lines, e))
                if left:
                    ctx.violation('C06|inputs-given-to-the-environment-land-in-another-reports-queue|%s' % env_name, case, 'the default report\'s sandbox now has %r queued' % (left,))


def run(ctx):
    from gen.programs import gen_program
    rng = ctx.rng
    n = ctx.pick(600, 12000)
    nval = ctx.pick(2, 25)
    if ctx.shard % 4 == 0:
        check_results_passed_back(ctx)
    if ctx.shard % 4 == 1:
        check_calls_with_inputs(ctx)
    if ctx.shard % 8 == 2:
        check_environment_inputs(ctx)
    specials = special_programs()
    for name, src, functions in specials[ctx.shard % 3::3]:
        ctx.seen('special_programs', name)
        check_program(ctx, {'src': src, 'inputs': [], 'inputs2': None, 'functions': [list(f) for f in functions], 'features': [name],
                            'planted': False, '_rng': None, 'extra_args': []})
        ctx.count('special_programs_compared')
    for i in range(n):
        if ctx.time_left() < 3:
            break
        p = gen_program(rng)
        src = p.src
        extras = []
        if rng.random() < 0.6:
            if not src.endswith('\n'):
                src += '\n'
            for sn in rng.sample(SNIPPETS, rng.choice([1, 1, 2, 3])):
                if 'input(' in sn:
                    p.inputs.extend(['Ada', 'lovelace'])
                if rng.random() < 0.3:
                    src = sn + src
                else:
                    src = src + sn
                extras.append(SNIPPETS.index(sn))
                ctx.seen('feature_snippets', str(SNIPPETS.index(sn)))
        planted = rng.random() < 0.45
        if planted:
            src = plant(rng, src)
        ins = list(p.inputs) if rng.random() < 0.8 else list(p.inputs)[:-1]
        if rng.random() < 0.5:
            ins = ins + ['extra1', '77']
        case = {'src': src, 'inputs': ins, 'inputs2': [str(rng.randrange(1, 30)) for _ in range(rng.randint(0, len(p.inputs) + 1))],
                'functions': [list(f) for f in p.functions],
                'features': sorted(p.features), 'planted': planted, '_rng': rng}
        check_program(ctx, case)
        if i < nval:
            subprocess_validate(ctx, src, case['inputs'])


def replay(ctx, case):
    if case.get('scenario') == 'result-passed-back':
        return check_results_passed_back(ctx)
    if case.get('scenario') == 'environment-inputs':
        return check_environment_inputs(ctx)
    if case.get('scenario') == 'calls-with-inputs':
        return _calls_with_inputs_history(ctx, case)
    case = dict(case)
    case.pop('_rng', None)
    call = case.pop('call', None)
    if call:
        case['functions'] = [[call['fname'], []]]
        case['extra_args'] = [(call['label'], call['args'])]
    case['functions'] = [tuple(f) for f in case['functions']]
    check_program(ctx, case)
