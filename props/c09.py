"""C09 - TIFA's initialization / unused-variable diagnoses match the execution paths."""
import itertools
import sys
import traceback

ID = 'C09'
LEVEL = 'exploration'
TECHNIQUE = 'execution oracle: every program of the flow subset is really executed once per branch-outcome vector under an instrumented namespace (logs reads/writes by line, survives undefined reads); per read site all/none/some paths define the name => expected diagnosis, compared exactly with tifa_analysis; loops and functions: real NameErrors over sampled decision vectors must be reported (soundness)'
LEVEL_TEXT = ('Part 1 (assignments, prints, nested if/elif/else over two variables): the space of programs up to a size bound is '
              'enumerated (completely for the small sizes, sampled above) and each program is executed for every branch-outcome vector '
              'with a namespace that records every read and write with its line; a read defined on all reaching paths must carry no '
              'issue, on none an Initialization Problem, on some a Possible Initialization Problem, and the unused-variable report '
              'must agree with the paths. Part 2 (while/for loops, function definitions and calls): programs are run in plain CPython '
              'for sampled decision vectors (loop counts 0, 1, 2); every NameError/UnboundLocalError observed at (name, line) must be '
              'reported by TIFA at that line with one of the three labels. Every ninth program is analysed as a later section of a file.')
LEVEL_NOTE = ('Branch conditions are input()-comparisons, so every outcome vector is realisable and TIFA sees no variable in them. '
              'Unused rule: must report when on every path the variable is assigned and not read after its last assignment (or not '
              'touched at all); must not report when on every path it is read after its last assignment; other mixes are left open by '
              'the statement and are not judged. Part 2 judges soundness only.')
RULE = ('Part 1 program = sequence of <=3 top-level statements (simple statements, if / if-else / if-elif-else with bodies of 1-2 '
        'statements, nesting depth <= 2) over variables a, b. Non-trivial: at least one branch and one read whose class is not "all". '
        'Distinct = distinct program text.')
ASSUMPTIONS = ['the instrumented execution is faithful: module-level name access goes through the mapping passed to exec()']
SHARDS = {'quick': 16, 'thorough': 48}
BUDGET = {'quick': 45, 'thorough': 1500}
MIN_NONTRIVIAL = {'quick': 3000, 'thorough': 100000}
REQUIRED_COUNTERS = {'quick': ['part1_programs', 'read_sites_compared', 'part2_programs', 'part2_name_errors_observed'],
                     'thorough': ['part1_programs', 'read_sites_compared', 'part2_programs', 'part2_name_errors_observed']}

VARS = ['a', 'b']
INIT_LABELS = ('initialization_problem', 'possible_initialization_problem', 'read_out_of_scope')


# ------------------------------------------------------------------------------------------------------------
# part 1: program space
# ------------------------------------------------------------------------------------------------------------

def simple_statements():
    out = []
    for v in VARS:
        out.append('%s = 1' % v)
        out.append('print(%s)' % v)
        for w in VARS:
            out.append('%s = %s' % (v, w))
    return out


def indent(lines):
    return ['    ' + l for l in lines]


def if_blocks(bodies1):
    """if / if-else / if-elif-else with the given candidate bodies (lists of lines)"""
    out = []
    for b in bodies1:
        out.append(["if input() == '1':"] + indent(b))
    return out


def enumerate_part1(max_len, rng=None, cap=None):
    simple = [[s] for s in simple_statements()]
    bodies = simple + [[x[0], y[0]] for x in simple for y in simple if x != y][:40]
    ifs = []
    for b in simple:
        ifs.append(["if input() == '1':"] + indent(b))
    for b1 in simple:
        for b2 in simple:
            ifs.append(["if input() == '1':"] + indent(b1) + ['else:'] + indent(b2))
    atoms = simple + ifs
    for n in range(1, max_len + 1):
        for combo in itertools.product(atoms, repeat=n):
            yield '\n'.join(l for stmt in combo for l in stmt) + '\n'


# reads in every expression position (all operands are always evaluated: values are truthy, only `and` is used)
READ_FORMS = ['print(%(v)s and %(w)s)', '%(u)s = %(v)s and %(w)s', '%(u)s = %(v)s + 1', 'print(%(v)s < %(w)s)', 'print(not %(v)s)', 'print(-%(v)s)',
              'print(len([%(v)s]))', "print(f'{%(v)s}')", 'print(%(v)s * 2 + %(w)s)', '%(u)s = (%(v)s and 1) + 1',
              'print(1 and %(v)s and %(w)s)', '%(u)s = max(%(v)s, 1)', '%(v)s',
              # calls written as statements of their own, on something that has no name
              '[%(v)s, 1].sort()', "'-'.join([str(%(v)s)])", 'str(%(v)s).upper()', '(%(v)s, %(w)s).count(1)']     # every variable value stays a non-zero int


# assignments in their other forms (every value stays a non-zero int)
ASSIGN_FORMS = ['%(v)s, %(w)s = 1, 2', '%(v)s, %(w)s = tuple([1, 2])', '%(v)s = %(w)s = 1', '%(v)s += 1', '%(v)s: int = 1', '(%(v)s, %(w)s) = (%(u)s, 1)',
                '[%(v)s, %(w)s] = [1, 2]', '%(v)s, %(w)s = %(w)s, %(v)s', '%(v)s, %(w)s = divmod(7, 2)']


def gen_part1(rng, depth=0, n=None):
    """random larger / deeper programs"""
    lines = []
    n = n or rng.randint(1, 4)
    for _ in range(n):
        r = rng.random()
        if r < 0.08:
            v = rng.choice(VARS)
            lines.append(rng.choice(ASSIGN_FORMS) % {'u': rng.choice(VARS), 'v': v, 'w': [x for x in VARS if x != v][0]})
        elif r < 0.2:
            lines.append(rng.choice(READ_FORMS) % {'u': rng.choice(VARS), 'v': rng.choice(VARS), 'w': rng.choice(VARS)})
        elif r < 0.55 or depth >= 2:
            lines.append(rng.choice(simple_statements()))
        else:
            lines.append("if input() == '1':")
            lines += indent(gen_part1(rng, depth + 1, rng.randint(1, 2)))
            k = rng.random()
            if k < 0.35:
                lines.append("elif input() == '1':")
                lines += indent(gen_part1(rng, depth + 1, rng.randint(1, 2)))
            if k < 0.7:
                lines.append('else:')
                lines += indent(gen_part1(rng, depth + 1, rng.randint(1, 2)))
    return lines


# ------------------------------------------------------------------------------------------------------------
# instrumented execution
# ------------------------------------------------------------------------------------------------------------

class Tracker(dict):
    """locals mapping for exec(): logs reads/writes with the line of the executing student frame"""
    def __init__(self, decisions):
        super().__init__()
        self.log = []            # ('r'|'u'|'w', name, line)  u = undefined read
        self.decisions = list(decisions)
        self.used = 0
        self.asked = 0

    def _line(self):
        f = sys._getframe(2)
        return f.f_lineno

    def __getitem__(self, name):
        if name == 'input':
            return self._input
        if name == 'print':
            return self._print
        if name == 'max':
            return self._max
        if name == 'len':
            return self._len
        if name in ('int', 'str', 'tuple', 'divmod'):
            return {'int': int, 'str': str, 'tuple': tuple, 'divmod': divmod}[name]
        if name == '__annotations__':
            return dict.setdefault(self, '__annotations__', {})
        if name in VARS:
            if dict.__contains__(self, name):
                self.log.append(('r', name, self._line()))
                return dict.__getitem__(self, name)
            self.log.append(('u', name, self._line()))
            return 1            # truthy, like every assigned value: `x and y` then evaluates both operands on every path
        raise KeyError(name)

    def __setitem__(self, name, value):
        if name in VARS:
            self.log.append(('w', name, self._line()))
        dict.__setitem__(self, name, value)

    def _input(self, *a):
        self.asked += 1
        if self.used < len(self.decisions):
            v = self.decisions[self.used]
            self.used += 1
            return v
        return '0'

    def _print(self, *a, **k):
        return None

    def _max(self, *a):
        return 1

    def _len(self, *a):
        return 1


def all_paths(code):
    """-> list of logs, one per branch-outcome vector (DFS over the decisions actually asked)"""
    logs = []
    stack = [[]]
    compiled = compile(code, 'answer.py', 'exec')
    while stack:
        prefix = stack.pop()
        t = Tracker(prefix)
        exec(compiled, {'__builtins__': {}}, t)
        if t.asked > len(prefix):
            # the run asked for more decisions than given: the extra ones defaulted to '0' -> expand the first undecided one
            stack.append(prefix + ['1'])
            stack.append(prefix + ['0'])
            continue
        logs.append(t.log)
        if len(logs) > 4096:
            return None         # too many outcome vectors to enumerate: the program is skipped, never judged on a partial set
    return logs


def classify(logs):
    """-> read_sites {(name, line): 'all'|'none'|'some'}, unused verdict per variable: 'must'|'must-not'|'open'"""
    sites = {}
    for log in logs:
        seen_here = {}
        for kind, name, line in log:
            if kind in ('r', 'u'):
                key = (name, line)
                # several reads of the same name on one line in one path: undefined if any is
                prev = seen_here.get(key)
                val = (kind == 'r')
                seen_here[key] = val if prev is None else (prev and val)
        for key, val in seen_here.items():
            sites.setdefault(key, []).append(val)
    out = {}
    for key, vals in sites.items():
        out[key] = 'all' if all(vals) else ('none' if not any(vals) else 'some')
    unused = {}
    for v in VARS:
        verdicts = []
        for log in logs:
            ev = [(k, line) for k, n, line in log if n == v]
            writes = [i for i, (k, _) in enumerate(ev) if k == 'w']
            reads = [i for i, (k, _) in enumerate(ev) if k in ('r', 'u')]
            if not writes:
                verdicts.append('untouched' if not reads else 'read-only')
            else:
                last = writes[-1]
                verdicts.append('read-after-last' if any(i > last for i in reads) else 'not-read-after-last')
        # (a path that only READS the name has no assignment after which it could be read: it says nothing against 'unused')
        if all(x in ('not-read-after-last', 'untouched', 'read-only') for x in verdicts) and any(x == 'not-read-after-last' for x in verdicts):
            unused[v] = 'must'
        elif all(x == 'read-after-last' for x in verdicts):
            unused[v] = 'must-not'
        else:
            unused[v] = 'open'
    return out, unused


_CTX = [None]


_ANALYSES = [0]
SECTION_HEAD = 'earlier_part = 1\nprint(earlier_part)\n\n'


RESPELLED = {'a': '_a', 'b': '__b2'}        # (a leading underscore is only a convention: '_' itself is the one name TIFA exempts)


def tifa_issues(code):
    from pedal.core.commands import clear_report, contextualize_report
    from pedal.tifa import tifa_analysis
    import re as _re, zlib as _zlib
    clear_report()
    _ANALYSES[0] += 1
    shift = 0
    back = {}
    if _zlib.crc32(code.encode()) % 6 == 0 and not _re.search(r'\b(_a|__b2)\b', code):
        # the same program with its variables spelled with leading underscores: same diagnoses, under those names
        code = _re.sub(r'\b(a|b)\b', lambda m: RESPELLED[m.group(1)], code)
        back = {v: k for k, v in RESPELLED.items()}
        if _CTX[0] is not None:
            _CTX[0].count('programs_analysed_with_underscore_names')
    if _ANALYSES[0] % 9 == 4 and '##### Part' not in code and '\r' not in code:
        # the program is the part after the first marker of a sectioned file (here one the student did not call answer.py): the
        # issues are reported on the lines of the whole file
        from pedal.core.report import MAIN_REPORT
        from pedal.source.sections import separate_into_sections, next_section
        contextualize_report(SECTION_HEAD + '##### Part 1\n' + code, filename='student_work.py' if _ANALYSES[0] % 2 else 'answer.py')
        separate_into_sections(independent=True)
        if _ANALYSES[0] % 4 < 2:
            tifa_analysis()         # (the part before the marker is analysed first, as a grader walking the sections does)
        next_section()
        if MAIN_REPORT.submission.main_code == '\n' + code:
            shift = SECTION_HEAD.count('\n') + 1
            if _CTX[0] is not None:
                _CTX[0].count('programs_analysed_as_a_later_section')
        else:
            clear_report()
            contextualize_report(code)
    else:
        contextualize_report(code)
    # (the messages of the issues are rendered through the report's formatter while the analysis runs: web environments use HTML)
    from props.c18 import use_formatter
    use_formatter(_CTX[0], code) if _CTX[0] is not None else None
    t = tifa_analysis()
    out = {}
    for label, fbs in (t.issues or {}).items():
        for fb in fbs:
            try:
                name = fb.fields.get('name')
            except Exception:
                name = None
            line = getattr(fb.location, 'line', None)
            out.setdefault(label, []).append((back.get(name, name), line - shift if isinstance(line, int) else line))
    return t, out


def check_part1(ctx, code):
    try:
        logs = all_paths(code)
    except Exception as e:
        ctx.note('harness: instrumented execution failed: %r on %r' % (e, code))
        return
    if logs is None:
        ctx.count('part1_skipped_too_many_paths')
        return
    sites, unused = classify(logs)
    try:
        t, issues = tifa_issues(code)
    except Exception as e:
        ctx.violation('C09|tifa-raised|%s' % type(e).__name__, {'code': code}, traceback.format_exc()[-400:])
        return
    if not t.success:
        ctx.violation('C09|analysis-failed|%s' % type(t.error).__name__, {'code': code}, repr(t.error)[:200])
        return
    ctx.count('part1_programs')
    definite = set(issues.get('initialization_problem', [])) | set(issues.get('read_out_of_scope', []))
    possible = set(issues.get('possible_initialization_problem', []))
    branchy = 'if ' in code
    nt = None
    if branchy and any(c != 'all' for c in sites.values()):
        nt = code
    ctx.case(nt)
    for (name, line), cls in sorted(sites.items()):
        ctx.count('read_sites_compared')
        ctx.seen('read_site_classes', cls)
        got = 'definite' if (name, line) in definite else ('possible' if (name, line) in possible else 'none')
        want = {'all': 'none', 'none': 'definite', 'some': 'possible'}[cls]
        if got != want:
            ctx.violation('C09|read-site|paths-%s|tifa-says-%s' % (cls, got), {'code': code},
                          'read of %s on line %d is defined on %s reaching paths (%d paths); TIFA: %s' % (name, line, cls, len(logs), got))
    # issues at sites that are not reads at all
    for name, line in definite | possible:
        if name in VARS and (name, line) not in sites:
            ctx.violation('C09|issue-at-a-line-without-such-a-read', {'code': code}, '%s line %s' % (name, line))
    reported_unused = {n for n, _ in issues.get('unused_variable', [])}
    for v, verdict in unused.items():
        if verdict == 'open':
            ctx.count('unused_open_cells')
            continue
        ctx.count('unused_verdicts_compared')
        if verdict == 'must' and v not in reported_unused:
            ctx.violation('C09|unused-not-reported', {'code': code}, '%s is never read after its last assignment on any path' % v)
        if verdict == 'must-not' and v in reported_unused:
            ctx.violation('C09|unused-reported-wrongly', {'code': code}, '%s is read after its last assignment on every path' % v)
    if ctx.evaluations % 997 == 0:
        ctx.sample({'code': code, 'paths': len(logs), 'read_sites': {'%s@%d' % k: v for k, v in sites.items()}, 'unused': unused,
                    'tifa': {k: v for k, v in issues.items()}})


# ------------------------------------------------------------------------------------------------------------
# part 2: loops and functions (soundness)
# ------------------------------------------------------------------------------------------------------------

P2_VARS = ['a', 'b', 'c']


def gen_part2(rng, depth=0, n=None, in_func=False, funcs=None):
    lines = []
    n = n or rng.randint(2, 5)
    funcs = funcs if funcs is not None else []
    for _ in range(n):
        r = rng.random()
        v, w = rng.choice(P2_VARS), rng.choice(P2_VARS)
        if r < 0.22:
            lines.append('%s = 1' % v)
        elif r < 0.34:
            lines.append('%s = %s + 1' % (v, w))
        elif r < 0.5:
            lines.append('print(%s)' % v)
        elif in_func and depth >= 2 and r < 0.6:
            lines.append('return %s' % rng.choice(['1', v]))
        elif depth >= 2:
            lines.append('%s = 2' % v)
        elif r < 0.62:
            lines.append("if input() == '1':")
            lines += indent(gen_part2(rng, depth + 1, rng.randint(1, 2), in_func, funcs))
            if rng.random() < 0.5:
                lines.append('else:')
                lines += indent(gen_part2(rng, depth + 1, rng.randint(1, 2), in_func, funcs))
        elif r < 0.74:
            lines.append('for i%d in range(int(input())):' % depth)
            lines += indent(gen_part2(rng, depth + 1, rng.randint(1, 2), in_func, funcs))
        elif r < 0.84:
            lines.append("while input() == '1':")
            lines += indent(gen_part2(rng, depth + 1, rng.randint(1, 2), in_func, funcs))
        elif r < 0.90 and not in_func and depth == 0:
            fname = 'f%d' % len(funcs)
            params = rng.choice([[], [], ['p'], ['p', 'q']])
            lines.append('def %s(%s):' % (fname, ', '.join(params)))
            body = gen_part2(rng, depth + 1, rng.randint(1, 3), True, funcs)     # may call the functions defined before it
            funcs.append((fname, len(params)))
            if rng.random() < 0.5:
                body.append('return %s' % rng.choice(P2_VARS + params if params else P2_VARS))
            lines += indent(body)
            if rng.random() < 0.8:
                lines.append('%s(%s)' % (fname, ', '.join('1' for _ in params)))
        elif funcs:
            # another call site of a function defined earlier: the names it reads may be set at one call site and not at another
            f, k = rng.choice(funcs)
            lines.append('%s(%s)' % (f, ', '.join('1' for _ in range(k))))
        else:
            lines.append('%s = 3' % v)
    return lines


def run_plain(code, decisions):
    q = list(decisions)

    def fake_input(*a):
        return q.pop(0) if q else '0'
    ns = {'input': fake_input, 'print': lambda *a, **k: None, 'range': range, 'int': int}
    try:
        exec(compile(code, 'answer.py', 'exec'), {'__builtins__': ns})
    except (NameError, UnboundLocalError) as e:
        tb = traceback.extract_tb(e.__traceback__)
        fr = [f for f in tb if f.filename == 'answer.py']
        name = getattr(e, 'name', None)
        if name is None:
            import re
            m = re.search(r"'(\w+)'", str(e))
            name = m.group(1) if m else None
        return (name, fr[-1].lineno, type(e).__name__) if fr else None
    except (RecursionError, TypeError, ValueError):
        return None
    return None


CALL_SITE_BODIES = ["print(a)", "t = a + 1\n    print(t)", "print(a)\n    print(b)", "print(p)\n    print(a)",
                    # a return inside a loop or a branch does not end every path through the function
                    "for i in range(int(input())):\n        return i\n    print(a)", "while input() == '1':\n        return 1\n    print(a)",
                    "if input() == '1':\n        return 1\n    print(a)", "for i in range(int(input())):\n        if input() == '1':\n            return i\n    print(a)\n    return 0"]
CALL_SITE_STATEMENTS = [
    "a = 1", "b = 2", "f0(%(args)s)", "if input() == '1':\n    a = 1\n    f0(%(args)s)", "if input() == '1':\n    a = 1\nelse:\n    f0(%(args)s)",
    "if input() == '1':\n    f0(%(args)s)\n    a = 1", "while input() == '1':\n    a = 1\n    f0(%(args)s)", "while input() == '1':\n    f0(%(args)s)\n    a = 1",
    "if input() == '1':\n    a = 1\n    b = 2\n    f0(%(args)s)\nf0(%(args)s)", "if input() == '1':\n    b = 2",
]


def enumerate_call_sites():
    """one function that reads module-level names, called from several places of a short main program: whether the names are
    set differs from call site to call site (every sequence of up to three statements)"""
    import itertools
    for bi, body in enumerate(CALL_SITE_BODIES):
        params = 'p' if 'print(p)' in body else ''
        args = '1' if params else ''
        head = 'def f0(%s):\n    %s\n' % (params, body)
        for n in (1, 2, 3):
            for combo in itertools.product(CALL_SITE_STATEMENTS, repeat=n):
                if not any('f0(' in c for c in combo):
                    continue
                yield head + '\n'.join(c % {'args': args} for c in combo) + '\n'


def check_part2(ctx, code, rng, exhaustive=False):
    try:
        compile(code, 'answer.py', 'exec')
    except SyntaxError:
        return
    errors = set()
    if exhaustive:
        import itertools
        k = min(code.count('input()'), 4)
        vectors = [list(v) + ['0'] * 8 for n in range(k + 1) for v in itertools.product(['1', '0'] if 'range(int(input()))' not in code else ['1', '0', '2'], repeat=n)]
    else:
        vectors = [[rng.choice(['0', '1', '2', '1', '0']) for _ in range(12)] for _ in range(24)]
    for decisions in vectors:
        r = run_plain(code, decisions)
        if r and r[0] in P2_VARS + ['p', 'q']:
            errors.add(r)
    ctx.count('part2_programs')
    if not errors:
        ctx.case(None)
        return
    try:
        t, issues = tifa_issues(code)
    except Exception as e:
        ctx.violation('C09|tifa-raised|%s' % type(e).__name__, {'code': code, 'part': 2}, traceback.format_exc()[-400:])
        return
    if not t.success:
        ctx.violation('C09|analysis-failed|%s' % type(t.error).__name__, {'code': code, 'part': 2}, repr(t.error)[:200])
        return
    reported = set()
    for lab in INIT_LABELS:
        reported |= set(issues.get(lab, []))
    ctx.case('P2:' + code)
    for name, line, etype in sorted(errors):
        ctx.count('part2_name_errors_observed')
        if (name, line) not in reported:
            construct = mechanism_of(code, name, line, etype)
            ctx.violation('C09|missed-uninitialised-read|%s' % construct, {'code': code, 'part': 2},
                          'a real execution raises NameError for %s on line %d; TIFA reports %s' % (name, line, sorted(reported)))


def mechanism_of(code, name, line, etype):
    """why could the name be unset at that read? (mechanism key, derived from the program's own syntax tree)"""
    import ast
    tree = ast.parse(code)
    parents = {}
    for node in ast.walk(tree):
        for ch in ast.iter_child_nodes(node):
            parents[ch] = node

    def chain(n):
        out = []
        while n in parents:
            n = parents[n]
            out.append(type(n).__name__)
        return out
    func_of_read = None
    for node in ast.walk(tree):
        if isinstance(node, ast.FunctionDef) and node.lineno <= line <= max(getattr(n, 'lineno', 0) for n in ast.walk(node)):
            func_of_read = node
    if etype == 'UnboundLocalError':
        return 'name-is-local-because-assigned-later-in-the-function'
    kinds = set()
    for node in ast.walk(tree):
        if isinstance(node, ast.Name) and node.id == name and isinstance(node.ctx, ast.Store):
            ch = chain(node)
            if 'FunctionDef' in ch:
                kinds.add('assigned-only-inside-a-function' if func_of_read is None else 'assigned-in-function')
            elif 'For' in ch:
                kinds.add('assigned-in-for-body')
            elif 'While' in ch:
                kinds.add('assigned-in-while-body')
            elif 'If' in ch:
                kinds.add('assigned-in-branch')
            else:
                kinds.add('assigned-at-top-level-later-or-earlier')
    if 'assigned-in-for-body' in kinds:
        # every such case found so far goes away when the for body is given a zero-iteration path
        return 'assigned-in-a-for-body-that-may-run-zero-times'
    where = 'read-in-function' if func_of_read is not None else 'read-at-module-level'
    return where + '|' + ('+'.join(sorted(kinds)) or 'never-assigned')


def enclosing_construct(code, line):
    """which kind of construct could leave the name unset (for the mechanism key)"""
    lines = code.split('\n')
    kinds = set()
    for l in lines[:line]:
        s = l.strip()
        if s.startswith('for '):
            kinds.add('for')
        elif s.startswith('while '):
            kinds.add('while')
        elif s.startswith('def '):
            kinds.add('def')
    return '+'.join(sorted(kinds)) or 'branches-only'


BINDING_FORMS = ['a, *b = 1, 2, 3', '*a, b = 1, 2, 3', 'print(a := 1)', 'b = (a := 1) + 1', 'a: int', 'b: str', 'a: int = 1']
PLAIN_ATOMS = ['print(a)', 'print(b)', 'a = 1', 'b = a', 'print(a, b)']


def binding_form_programs():
    """the other ways a name gets (or does not get) bound: starred targets, assignment expressions - also in a branch condition -,
    a bare annotation (which binds nothing). Reads are prints only (a starred name holds a list)."""
    atoms = [[x] for x in BINDING_FORMS + PLAIN_ATOMS]
    ifs = []
    for b1 in atoms:
        ifs.append(["if input() == '1':"] + indent(b1))
        for b2 in atoms:
            if b1[0] in BINDING_FORMS or b2[0] in BINDING_FORMS:
                ifs.append(["if input() == '1':"] + indent(b1) + ['else:'] + indent(b2))
    ifs.append(["if (a := input()) == '1':", '    print(a)'])
    ifs.append(["if (a := input()) == '1':", '    b = a', 'else:', '    print(a)'])
    tail = [[x] for x in PLAIN_ATOMS]
    out = []
    for first in atoms + ifs:
        uses_form = any(f in l for l in first for f in BINDING_FORMS) or ':=' in first[0]
        for second in tail + ([x for x in atoms if x[0] in BINDING_FORMS] if not uses_form else []):
            if not uses_form and second[0] not in BINDING_FORMS:
                continue
            out.append('\n'.join(first + second) + '\n')
            for third in tail:
                out.append('\n'.join(first + second + third) + '\n')
    return out


def run(ctx):
    rng = ctx.rng
    _CTX[0] = ctx
    forms = binding_form_programs()
    mine = forms[ctx.shard::ctx.nshards]
    if ctx.quick():
        rng.shuffle(mine)
    for code in mine[:ctx.pick(250, len(mine))]:
        ctx.count('binding_form_programs')
        check_part1(ctx, code)
    # part 1: exhaustive for the small sizes (striped over the shards)
    max_len = ctx.pick(2, 3)
    for i, code in enumerate(enumerate_part1(max_len)):
        if i % ctx.nshards != ctx.shard:
            continue
        if ctx.time_left() < 12:
            ctx.count('part1_not_reached_budget')
            break
        check_part1(ctx, code)
    for _ in range(ctx.pick(1500, 20000)):
        if ctx.time_left() < 8:
            break
        check_part1(ctx, '\n'.join(gen_part1(rng)) + '\n')
    # part 2
    for _ in range(ctx.pick(800, 20000)):
        if ctx.time_left() < 2:
            break
        check_part2(ctx, '\n'.join(gen_part2(rng)) + '\n', rng)
    # part 2b: several call sites of one function, enumerated
    for i, code in enumerate(enumerate_call_sites()):
        if i % ctx.nshards != ctx.shard or (ctx.quick() and (i // ctx.nshards) % 4 != 0 and code.count('\n') > 7):
            continue
        if ctx.time_left() < 2:
            ctx.count('call_site_programs_not_reached_budget')
            break
        ctx.count('call_site_programs')
        check_part2(ctx, code, rng, exhaustive=True)
    # the documented shape from the property text
    if ctx.shard == 0:
        for code in ("for i in range(int(input())):\n    a = i\nprint(a)\n", "while input() == '1':\n    a = 1\nprint(a)\n",
                     "def f0():\n    print(a)\nf0()\na = 1\n", "def f0():\n    b = a\n    a = 2\nf0()\n",
                     "if input() == '1':\n    a = 1\nprint(a)\n"):
            check_part2(ctx, code, rng)


def replay(ctx, case):
    import random
    if case.get('part') == 2:
        check_part2(ctx, case['code'], random.Random(1), exhaustive=case['code'].startswith('def f0(') and case['code'].count('input()') <= 4)
    else:
        check_part1(ctx, case['code'])
