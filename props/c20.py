"""C20 - each feedback call is recorded once, truthfully, and rendered from its fields."""
import string
import traceback

ID = 'C20'
LEVEL = 'exploration'
TECHNIQUE = 'invariant monitor on every Feedback construction (condition()/_get_message() spied at the _handle_condition boundary, return and raise paths) + rendering oracle computed by calling the formatter directly + class-attribute snapshot comparison over override()/clear() sequences; also attached to the repository tests'
LEVEL_TEXT = ('Held on the constructions observed: every Feedback object created (core commands, tool feedback classes, generated '
              'instructor subclasses with condition outcomes True/False/truthy/falsy objects/raising and raising _get_message; keyword '
              'mixes message/template/neither, fields, extra keywords, field_names, activate, delay_condition, parent groups) is checked '
              'for: recorded exactly once, in the triggered list iff the real condition() result was truthy, bool() equal to it, '
              'error path (untriggered list, status error, same exception reaches the caller). The delivered message is compared '
              'with an independent rendering (explicit message, else template with each field passed through the formatter method '
              'named by its format spec) for Formatter, HtmlFormatter, TextFormatter and a custom formatter. After every override()/'
              'clear_report()/contextualize_report() sequence every class attribute of every Feedback subclass equals the import-time '
              'snapshot. The same monitor runs under the repository tests.')
LEVEL_NOTE = ('An exception raised by a report hook or a parent group callback after the object was recorded is not the '
              'condition/message error path and is counted, not judged. assert_* wrappers (which swallow condition errors) are C07.')
RULE = ('Constructions: class (real or generated) x keyword shape x condition outcome; distinct = distinct (class, field names, '
        'condition outcome type+truth) observed by the monitor. Override histories: sequences of 1-8 override/clear/contextualize/'
        'construct operations over parent, child and sibling classes; distinct = distinct sequence.')
ASSUMPTIONS = ['the import-time values of class attributes are the reference for "restored"']
SHARDS = {'quick': 16, 'thorough': 32}
BUDGET = {'quick': 40, 'thorough': 900}
MIN_NONTRIVIAL = {'quick': 150, 'thorough': 1000}
REQUIRED_COUNTERS = {'quick': ['constructions_observed', 'renderings_compared', 'override_sequences_checked', 'error_paths_observed'],
                     'thorough': ['constructions_observed', 'renderings_compared', 'override_sequences_checked', 'error_paths_observed']}

OVERRIDABLE = ['title', 'message_template', 'message', 'muted', 'unscored', 'priority', 'category', 'kind', 'valence', 'score',
               'correct', 'justification', 'justification_template', 'else_message', 'else_message_template', 'label', 'tool', 'version', 'constant_fields']


class PlannedError(Exception):
    pass


def all_feedback_classes():
    from pedal.core.feedback import Feedback
    out = []
    seen = set()
    stack = [Feedback]
    while stack:
        c = stack.pop()
        if c in seen:
            continue
        seen.add(c)
        out.append(c)
        stack.extend(c.__subclasses__())
    return out


def snapshot_classes():
    snap = {}
    for c in all_feedback_classes():
        snap[c] = {f: getattr(c, f, '<absent>') for f in OVERRIDABLE}
    return snap


def import_everything():
    import importlib
    for m in ('pedal', 'pedal.core.commands', 'pedal.source', 'pedal.source.feedbacks', 'pedal.sandbox', 'pedal.sandbox.feedbacks',
              'pedal.sandbox.commands', 'pedal.tifa', 'pedal.tifa.feedbacks', 'pedal.assertions', 'pedal.assertions.feedbacks',
              'pedal.assertions.runtime', 'pedal.assertions.static', 'pedal.cait', 'pedal.resolvers', 'pedal.questions',
              'pedal.toolkit', 'pedal.extensions', 'pedal.types'):
        try:
            importlib.import_module(m)
        except Exception:
            pass


# ----------------------------------------------------------------------------------------------------------
# rendering oracle
# ----------------------------------------------------------------------------------------------------------

SINGLE_ARG_FORMATS = ['exception', 'filename', 'frame', 'traceback', 'inputs', 'line', 'name', 'output', 'python_code',
                      'python_expression', 'python_value']


def expected_render(template, fields, formatter):
    out = []
    for lit, name, spec, conv in string.Formatter().parse(template):
        out.append(lit)
        if name is None:
            continue
        value = fields[name]
        spec = spec or ''
        if conv == 'r':
            out.append(format(repr(value), spec))
            continue
        if conv == 's':
            out.append(format(str(value), spec))
            continue
        rendered = str(value)
        for fname in formatter.available:
            if spec.endswith(fname):
                spec = spec[:-len(fname)]
                if spec.endswith(':'):
                    spec = spec[:-1]
                rendered = getattr(formatter, fname)(value)
                break
        out.append(format(rendered, spec))
    return ''.join(out)


def gen_template(rng, fields, typed_ok=False):
    parts = []
    names = list(fields)
    for _ in range(rng.randint(1, 5)):
        parts.append(rng.choice(['The value ', ' and ', 'x', ' {{literal}} ', '\n', 'on line ', '']))
        if names and rng.random() < 0.8:
            n = rng.choice(names)
            v = fields[n]
            r = rng.random()
            if r < 0.35:
                parts.append('{%s}' % n)
            elif r < 0.45:
                parts.append('{%s!r}' % n)
            elif r < 0.5:
                parts.append('{%s!s:>12}' % n)
            elif r < 0.6 and isinstance(v, str):
                parts.append('{%s:%s}' % (n, rng.choice(['>10', '<8', '^12', ''])))
            else:
                if isinstance(v, int) and not isinstance(v, bool):
                    parts.append(rng.choice(['{%s:line}', '{%s:>6:line}', '{%s:03:line}'] + (['{%s:python_value}'] if typed_ok else [])) % n)
                elif isinstance(v, (list, tuple)) and typed_ok:
                    parts.append(rng.choice(['{%s:name}', '{%s:python_value}', '{%s}']) % n)
                elif not isinstance(v, str) and typed_ok:
                    parts.append(rng.choice(['{%s:python_value}', '{%s:line}', '{%s}']) % n)
                elif isinstance(v, str):
                    f = rng.choice(['name', 'python_code', 'python_expression', 'python_value', 'filename', 'frame', 'output',
                                    'inputs', 'exception', 'traceback'])
                    parts.append('{%s:%s}' % (n, f) if rng.random() < 0.85 else '{%s:>14:%s}' % (n, f))
                else:
                    parts.append('{%s}' % n)
    return ''.join(parts)


FIELD_VALUES = ['total', 'x = 1\nprint(x)', '__init__', 'a < b > c', '', 'answer.py', 'hello world', 42, 0, -7, 3.5, True, None,
                [1, 2], ('a', 1), {'k': 'v'}, 'Ünïcode', '  spaced  ', 'line1\nline2\n']


def gen_fields(rng):
    names = rng.sample(['name', 'value', 'expected', 'actual', 'lineno', 'code', 'count', 'location_text', 'kind_of', 'extra'], rng.randint(0, 5))
    return {n: rng.choice(FIELD_VALUES) for n in names}


def make_formatters():
    from pedal.core.formatting import Formatter, HtmlFormatter, TextFormatter

    class ShoutFormatter(Formatter):
        def name(self, name):
            return '<<%s>>' % str(name).upper()

        def line(self, line_number):
            return 'L%s' % line_number

        def python_code(self, code, focus=None):
            return '```' + str(code) + '```'

    class TypeAwareFormatter(Formatter):
        # what a field is rendered as depends on the VALUE the feedback was given, not on its text: the methods get that value
        def name(self, name):
            return ' and '.join('`%s`' % n for n in name) if isinstance(name, (list, tuple)) else '`%s`' % name

        def line(self, line_number):
            return 'line %d' % (line_number + 1000) if isinstance(line_number, int) and not isinstance(line_number, bool) else 'line <%s:%s>' % (type(line_number).__name__, line_number)

        def python_value(self, code):
            return '%s %r' % (type(code).__name__, code)

        def python_code(self, code, focus=None):
            return '[%s]%s' % (type(code).__name__, code)
    class NumberedFormatter(Formatter):
        # a formatter with a setting of its own per instance (like the terminal formatter's path mask): what it renders depends on
        # WHICH instance the report holds
        made = [0]

        def __init__(self, report=None):
            super().__init__(report)
            self.made[0] += 1
            self.tag = 'F%d' % self.made[0]

        def name(self, name):
            return '%s<%s>' % (self.tag, name)

        def line(self, line_number):
            return '%s@%s' % (self.tag, line_number)

        def python_code(self, code, focus=None):
            return '%s{%s}' % (self.tag, code)

        def python_value(self, code):
            return '%s=%s' % (self.tag, code)
    return [('Formatter', Formatter), ('HtmlFormatter', HtmlFormatter), ('TextFormatter', TextFormatter), ('custom', ShoutFormatter), ('type-aware', TypeAwareFormatter),
            ('instance-state', NumberedFormatter), ('instance-state', NumberedFormatter)]


# ----------------------------------------------------------------------------------------------------------
# generated instructor-defined classes
# ----------------------------------------------------------------------------------------------------------

COND_OUTCOMES = [('True', True), ('False', False), ('list-nonempty', [0]), ('list-empty', []), ('str', 'yes'), ('str-empty', ''),
                 ('int-zero', 0), ('int-two', 2), ('None', None), ('object', object()), ('float-zero', 0.0), ('dict', {'a': 1}),
                 ('raises-ValueError', ValueError), ('raises-KeyError', KeyError), ('raises-Planned', PlannedError),
                 ('default', 'DEFAULT')]


def make_class(rng, outcome, msg_raises, base):
    from pedal.core.feedback import Feedback
    name, val = outcome
    body = {'title': rng.choice(['Generated', None, 'T']), 'category': rng.choice([Feedback.CATEGORIES.INSTRUCTOR, Feedback.CATEGORIES.MISTAKES, None])}
    if rng.random() < 0.5:
        body['message_template'] = rng.choice(['Template for {label_text}', 'Plain template', 'Has {const_value!r}'])
        body['constant_fields'] = {'label_text': 'const', 'const_value': 1}
    if val != 'DEFAULT':
        if isinstance(val, type) and issubclass(val, BaseException):
            def condition(self, *a, **k):
                raise val('planned condition failure')
        else:
            def condition(self, *a, **k):
                return val
        body['condition'] = condition
    if msg_raises:
        def _get_message(self):
            raise PlannedError('planned message failure')
        body['_get_message'] = _get_message
    return type('generated_%s_%s' % (name.replace('-', '_'), 'msgraise' if msg_raises else 'ok'), (base,), body)


def run_constructions(ctx, n):
    from pedal.core.feedback import Feedback, FeedbackResponse
    from pedal.core import commands as cmd
    from pedal.core.commands import clear_report
    from pedal.core.report import MAIN_REPORT
    from pedal.core.feedback_category import FeedbackStatus
    rng = ctx.rng
    formatters = make_formatters()
    report = MAIN_REPORT
    batch = []
    for i in range(n):
        if ctx.time_left() < 4:
            break
        if i % 25 == 0:
            lists_after_resolving(ctx, report, batch)
            batch = []
            clear_report()
            fname, F = rng.choice(formatters)
            report.format = F()
            cur_fmt = fname
        outcome = rng.choice(COND_OUTCOMES)
        msg_raises = rng.random() < 0.08
        base = rng.choice([Feedback, FeedbackResponse, Feedback])
        kind = rng.random()
        fields = gen_fields(rng)
        kwargs = {}
        shape = []
        explicit_message = None
        template = None
        if rng.random() < 0.35:
            explicit_message = rng.choice(['An explicit message', 'msg with {braces}', ''])
            kwargs['message'] = explicit_message
            shape.append('message')
        if rng.random() < 0.5 and fields:
            template = gen_template(rng, fields, typed_ok=(cur_fmt == 'type-aware'))
            kwargs['message_template'] = template
            shape.append('template')
        if fields and rng.random() < 0.7:
            kwargs['fields'] = dict(fields)
            shape.append('fields')
        elif fields:
            kwargs.update(fields)      # extra keywords become fields
            shape.append('extra-kwargs')
        if rng.random() < 0.2 and 'fields' not in kwargs:
            # documented use: field_names declares which keyword arguments are fields
            kwargs['field_names'] = list(fields)[:2]
            shape.append('field_names')
        activate = rng.random() < 0.75
        if rng.random() < 0.5:
            kwargs['activate'] = activate
            shape.append('activate=%s' % activate)
        else:
            activate = True
        delay = rng.random() < 0.12
        if delay:
            kwargs['delay_condition'] = True
            shape.append('delayed')
        if rng.random() < 0.2:
            kwargs['label'] = 'custom_label'
        if rng.random() < 0.15:
            kwargs['else_message'] = 'else text'
        if rng.random() < 0.1:
            kwargs['location'] = rng.choice([3, 10])
        if rng.random() < 0.2:
            # the documented kinds of parent: a number, a name, a feedback object
            how = rng.choice(['int', 'str', 'feedback'])
            if how == 'feedback':
                kwargs['parent'] = Feedback(label='verif_group_%d' % i)       # created (and recorded) before the counts below are taken
            else:
                kwargs['parent'] = 2 if how == 'int' else 'named-section'
            shape.append('parent-' + how)
        # ---- which class ------------------------------------------------------------------------------------
        use_core = kind < 0.25
        if use_core:
            cname, ctor = rng.choice([('explain', cmd.explain), ('gently', cmd.gently), ('guidance', cmd.guidance), ('compliment', cmd.compliment),
                                      ('Feedback', Feedback), ('FeedbackResponse', FeedbackResponse)])
            if cname in ('explain', 'gently', 'guidance', 'compliment') and 'message' not in kwargs and 'message_template' not in kwargs:
                kwargs['message'] = explicit_message = 'required message'
            expected_truth = bool(activate)
            expects_exc = None
            cls_template = None
            cls = ctor
        else:
            cls = make_class(rng, outcome, msg_raises, base)
            cname = cls.__name__
            val = outcome[1]
            if val == 'DEFAULT':
                expected_truth, expects_exc = bool(activate), None
            elif isinstance(val, type) and issubclass(val, BaseException):
                expected_truth, expects_exc = False, val
            else:
                expected_truth, expects_exc = bool(val), None
            if expects_exc is None and msg_raises and expected_truth:
                expected_truth, expects_exc = False, PlannedError
            elif msg_raises and not expected_truth:
                pass            # the unused message is computed in a swallowed try: no error path
            cls_template = cls.__dict__.get('message_template')
        case = {'class': cname, 'shape': shape, 'outcome': outcome[0] if not use_core else 'activate', 'formatter': cur_fmt,
                'kwargs': {k: v for k, v in kwargs.items()}}
        n_f, n_i = len(report.feedback), len(report.ignored_feedback)
        raised = None
        fb = None
        try:
            fb = cls(**kwargs)
        except BaseException as e:
            raised = e
        ctx.count('constructions_driven')
        ctx.seen('keyword_shapes', '+'.join(sorted(s.split('=')[0] for s in shape)) or 'bare')
        ctx.seen('formatters', cur_fmt)
        # ---- the caller's view -----------------------------------------------------------------------------
        if delay:
            if raised is not None:
                ctx.violation('C20|delayed-construction-raised|%s' % type(raised).__name__, case, repr(raised)[:200])
                continue
            if len(report.feedback) != n_f or len(report.ignored_feedback) != n_i or fb._status != FeedbackStatus.DELAYED or bool(fb):
                ctx.violation('C20|delayed-feedback-recorded-early', case, 'status %r, lists grew by %d/%d' % (fb._status, len(report.feedback) - n_f, len(report.ignored_feedback) - n_i))
                continue
            ctx.count('delayed_constructions')
            try:
                fb._handle_condition()
            except BaseException as e:
                raised = e
        if expects_exc is not None:
            if raised is None:
                ctx.violation('C20|error-did-not-reach-caller|%s' % ('condition' if not msg_raises or (isinstance(outcome[1], type)) else 'message'), case,
                              'constructor returned normally')
            elif not isinstance(raised, expects_exc):
                ctx.violation('C20|caller-got-other-exception|%s' % type(raised).__name__, case, traceback.format_exception_only(type(raised), raised)[-1][:200])
            continue
        if raised is not None:
            # message rendering may legitimately fail for templates naming absent fields: our templates only use present ones
            ctx.violation('C20|constructor-raised|%s|%s' % (type(raised).__name__, site_of(raised)), case, traceback.format_exc()[-300:] if False else repr(raised)[:300])
            continue
        batch.append((fb, bool(expected_truth), case))
        # ---- rendering -------------------------------------------------------------------------------------
        if expected_truth:
            if explicit_message is not None:
                want = explicit_message
            else:
                tmpl = template if template is not None else cls_template
                if tmpl is None or msg_raises:
                    want = None
                else:
                    all_fields = dict(getattr(fb, 'fields', {}))
                    try:
                        want = expected_render(tmpl, all_fields, report.format)
                    except Exception as e:
                        want = None
                        ctx.count('oracle_could_not_render')
            if want is not None:
                ctx.count('renderings_compared')
                if fb.message != want:
                    ctx.violation('C20|message-differs|%s|%s' % ('explicit-message' if explicit_message is not None else 'template', cur_fmt), case,
                                  'expected %r\n     got %r' % (want[:300], str(fb.message)[:300]))
        if ctx.evaluations % 89 == 0:
            ctx.sample({'case': case, 'triggered': bool(fb), 'message': str(fb.message)[:200]})


def site_of(exc):
    tb = traceback.extract_tb(exc.__traceback__)
    for fr in reversed(tb):
        if '/pedal/' in fr.filename:
            return '%s:%s' % (fr.filename.split('/pedal/')[-1], fr.name)
    return 'outside-pedal'


def lists_after_resolving(ctx, report, batch):
    """where an object was recorded does not change when the report is resolved (once, twice): each is still on exactly one of the
    two lists, the one its outcome put it on"""
    if not batch:
        return
    from pedal.resolvers import simple
    for times in (1, 2):
        try:
            simple.resolve(report)
        except Exception:
            ctx.count('resolves_of_generated_reports_that_raised_(not judged here)')
            return
        for fb, truth, case in batch:
            on_t = sum(1 for x in report.feedback if x is fb)
            on_u = sum(1 for x in report.ignored_feedback if x is fb)
            ctx.count('list_memberships_checked_after_a_resolve')
            if (on_t, on_u) != ((1, 0) if truth else (0, 1)):
                ctx.violation('C20|recorded-%d-times|after-resolving-%s' % (on_t + on_u, 'once' if times == 1 else 'twice'), case,
                              'outcome %s: on the triggered list %d times, on the untriggered list %d times' % (truth, on_t, on_u))
                return


# ----------------------------------------------------------------------------------------------------------
# override / clear histories
# ----------------------------------------------------------------------------------------------------------

def override_targets():
    from pedal.core.feedback import Feedback, FeedbackResponse
    from pedal.core import commands as cmd
    from pedal.sandbox import feedbacks as sf
    from pedal.source import feedbacks as srcf
    targets = [('runtime_error', sf.runtime_error), ('name_error', sf.name_error), ('type_error', sf.type_error),
               ('index_error', sf.index_error), ('syntax_error', srcf.syntax_error), ('blank_source', srcf.blank_source),
               ('explain', cmd.explain), ('gently', cmd.gently), ('set_correct', cmd.set_correct), ('compliment', cmd.compliment),
               ('FeedbackResponse', FeedbackResponse)]
    try:
        from pedal.tifa import feedbacks as tf
        targets += [('unused_variable', tf.unused_variable), ('initialization_problem', tf.initialization_problem)]
    except Exception:
        pass
    try:
        from pedal.assertions import feedbacks as af
        targets += [('AssertionFeedback', af.AssertionFeedback), ('RuntimeAssertionFeedback', af.RuntimeAssertionFeedback)]
    except Exception:
        pass

    class verif_parent(FeedbackResponse):
        title = 'Parent title'
        message_template = 'parent {x}'
        muted = False

    class verif_child(verif_parent):
        title = 'Child title'

    class verif_grandchild(verif_child):
        pass

    class verif_sibling(verif_parent):
        message_template = 'sibling'

    class verif_shadows_with_none(verif_parent):
        # its OWN value of these fields is None, while the parent's is not
        title = None
        muted = None
        message_template = None
        justification = None
        score = None
    targets += [('verif_parent', verif_parent), ('verif_child', verif_child), ('verif_grandchild', verif_grandchild), ('verif_sibling', verif_sibling),
                ('verif_shadows_with_none', verif_shadows_with_none), ('Feedback', Feedback)]
    return targets


OVERRIDE_VALUES = {'title': ['Overridden title', 'Another'], 'message_template': ['overridden template', 'again {x}'],
                   'muted': [True, False], 'priority': ['high', 'low', 'syntax'], 'category': ['student', 'mistakes'],
                   'justification': ['because'], 'score': [0.5, '+10%'], 'correct': [True], 'unscored': [True], 'valence': [1, -1]}


def run_overrides(ctx, n, snap, targets):
    from pedal.core.commands import clear_report, contextualize_report
    rng = ctx.rng
    names = [t[0] for t in targets]
    by = dict(targets)
    # one field of one class overridden through both of the grader's reports, in either order, and each report cleared first once:
    # every such history, for an own and for an inherited field (not left to the luck of the random ones below)
    for cname, field, v1, v2 in (('verif_child', 'valence', -1, 1), ('verif_child', 'title', 'Overridden title', 'Another'), ('runtime_error', 'priority', 'syntax', 'high'),
                                 ('verif_grandchild', 'muted', True, False), ('Feedback', 'priority', 'low', 'high')):
        if cname not in by:
            continue
        for first_other in (False, True):
            for clear_other_first in (False, True):
                a = ('override', cname, {field: v1}) + (('other-report',) if first_other else ())
                b = ('override', cname, {field: v2}) + (() if first_other else ('other-report',))
                ends = [('clear-other-report',), ('clear_report',)] if clear_other_first else [('clear_report',), ('clear-other-report',)]
                check_override_sequence(ctx, [a, b] + ends + [('contextualize_report',)], by, snap)
                ctx.count('override_histories_through_both_reports')
    for i in range(n):
        if ctx.time_left() < 3:
            break
        seq = []
        for _ in range(rng.randint(1, 8)):
            r = rng.random()
            if r < 0.6:
                t = rng.choice(names)
                k = rng.sample(list(OVERRIDE_VALUES), rng.randint(1, 3))
                seq.append(('override', t, {f: rng.choice(OVERRIDE_VALUES[f]) for f in k}) + (('other-report',) if rng.random() < 0.25 else ()))
            elif r < 0.7:
                seq.append(('clear_report',))
            elif r < 0.75:
                seq.append(('clear-other-report',))
            elif r < 0.85:
                seq.append(('contextualize_report',))
            else:
                seq.append(('construct', rng.choice(['explain', 'gently', 'compliment'])))
        seq.append(('clear-other-report',))
        seq.append(rng.choice([('clear_report',), ('contextualize_report',)]))
        check_override_sequence(ctx, seq, by, snap)


def check_override_sequence(ctx, seq, by, snap):
    from pedal.core.commands import clear_report, contextualize_report
    from pedal.core import commands as cmd
    case = {'sequence': [list(s) for s in seq]}
    from pedal.core.report import Report
    other = Report()          # a second report object of the grader's: overrides can be registered with either
    through = {'main': set(), 'other': set()}

    def restored_after_clearing(which):
        # what was overridden THROUGH the report that was just cleared is back to what the class had
        for cname, f in sorted(through[which]):
            c = by[cname]
            want = snap.get(c, {}).get(f, '<not-in-snapshot>')
            if f not in c.__dict__:
                continue        # inherited again (whatever a parent, possibly still overridden through the other report, says)
            now = c.__dict__[f]
            if want != '<not-in-snapshot>' and now is not want and now != want:
                ctx.violation('C20|class-attribute-not-restored|by-clearing-the-report-it-was-overridden-through', case,
                              {'class': cname, 'field': f, 'report': which, 'original': repr(want)[:40], 'now': repr(now)[:40]})
                break
        through[which].clear()
    try:
        for op in seq:
            if op[0] == 'override':
                if len(op) > 3:
                    by[op[1]].override(report=other, **op[2])
                    through['other'].update((op[1], f) for f in op[2])
                else:
                    by[op[1]].override(**op[2])
                    through['main'].update((op[1], f) for f in op[2])
            elif op[0] == 'clear-other-report':
                other.clear()
                restored_after_clearing('other')
            elif op[0] == 'clear_report':
                clear_report()
                restored_after_clearing('main')
            elif op[0] == 'contextualize_report':
                contextualize_report('x = 1\n')
                restored_after_clearing('main')
            elif op[0] == 'construct':
                getattr(cmd, op[1])('a message')
    except Exception as e:
        ctx.violation('C20|override-sequence-raised|%s|%s' % (type(e).__name__, site_of(e)), case, traceback.format_exc()[-500:])
        restore(snap)
        return
    ctx.count('override_sequences_checked')
    overridden = sorted({op[1] for op in seq if op[0] == 'override'})
    bad = []
    for c, attrs in snap.items():
        for f, v in attrs.items():
            now = getattr(c, f, '<absent>')
            if now is not v and now != v:
                bad.append((c.__name__, f, repr(v)[:40], repr(now)[:40]))
    if bad:
        cname, f = bad[0][0], bad[0][1]
        rel = 'overridden-class' if cname in overridden else 'class-never-overridden-itself'
        ctx.violation('C20|class-attribute-not-restored|%s' % rel, case, {'first': bad[0], 'count': len(bad), 'overridden': overridden})
        restore(snap)
    key = 'O:' + repr(seq)
    ctx.case(key if len(overridden) >= 1 else None)


def restore(snap):
    """repair the classes so that one violation does not cascade"""
    for c, attrs in snap.items():
        for f, v in attrs.items():
            try:
                if getattr(c, f, '<absent>') is not v and getattr(c, f, '<absent>') != v:
                    setattr(c, f, v)
            except Exception:
                pass
        try:
            if c.__dict__.get('_override_backups'):
                c._override_backups.clear()
        except Exception:
            pass


def check_class_level_scenarios(ctx):
    """state that lives on a class: (a) a report formatter whose class adds formats of its own to `available`; (b) a feedback class
    with constant fields, constructed again and again with different fields of the call - every message is made of the class's
    constants and THIS call's fields only"""
    from pedal.core.feedback import Feedback
    from pedal.core.formatting import Formatter
    from pedal.core.commands import clear_report
    from pedal.core.report import MAIN_REPORT
    rng = ctx.rng

    class KeyFormatter(Formatter):
        available = list(Formatter.available) + ['key', 'shout']

        def key(self, value):
            return '[key %s]' % (value,)

        def shout(self, value):
            return str(value).upper() + '!'

        def name(self, name):
            return '<%s>' % (name,)

    clear_report()
    report = MAIN_REPORT
    report.format = KeyFormatter()
    for t in range(ctx.pick(40, 400)):
        fields = {'k': rng.choice(['enter', 'esc', 'x']), 'n': rng.choice(['total', 'i'])}
        template = ''.join(rng.choice(['press {k:key} ', '{k:>8:shout} ', 'the {n:name} ', '{k:shout}{n:key}', '{k} ', '{n:<6:name}|']) for _ in range(rng.randint(1, 4)))
        want = expected_render(template, fields, report.format)
        case = {'scenario': 'formatter-with-own-formats', 'template': template, 'fields': fields}
        n0 = len(report.feedback)
        try:
            fb = Feedback(label='own_formats', message_template=template, fields=dict(fields))
        except Exception as e:
            ctx.violation('C20|constructor-raised|%s|formatter-with-own-formats' % type(e).__name__, case, traceback.format_exc()[-400:])
            continue
        ctx.count('renderings_compared')
        ctx.count('renderings_with_formats_the_formatter_class_added')
        ctx.case('own-format:' + template + repr(sorted(fields.items())))
        if fb.message != want or not any(x is fb for x in report.feedback[n0:]):
            ctx.violation('C20|message-differs|formatter-with-own-formats', case, 'expected %r, got %r (triggered list: %s)' % (want, fb.message, any(x is fb for x in report.feedback[n0:])))
    # (a2) the grader keeps ONE dictionary of fields and hands it to several feedbacks: each message is made of what was in it
    # when that feedback was created, and nothing is added to the grader's dictionary
    report.format = Formatter()
    shared = {'who': 'first'}
    for t in range(ctx.pick(20, 200)):
        given = dict(shared)
        template = rng.choice(['Seen {who}', 'Seen {who} at {location}', '{who}!', 'At {location}'])
        kw = {}
        if rng.random() < 0.5:
            kw['location'] = rng.randint(1, 9)
        case = {'scenario': 'one-fields-dictionary-for-several-feedbacks', 'template': template, 'fields': dict(shared), 'keywords': dict(kw)}
        needs_location = '{location}' in template
        raised = fb = None
        n0 = len(report.feedback)
        try:
            fb = Feedback(label='shared_fields', message_template=template, fields=shared, **kw)
        except BaseException as e:
            raised = e
        ctx.count('constructions_with_a_shared_fields_dictionary')
        ctx.case('shared:%s:%r:%r' % (template, sorted(shared.items()), sorted(kw.items())))
        if shared != given:
            ctx.violation('C20|callers-fields-dictionary-changed-by-a-construction', case, 'it held %r, now %r' % (given, shared))
            shared.clear(); shared.update(given)
        if needs_location and 'location' not in kw:
            if raised is None:
                ctx.violation('C20|message-error-not-raised|one-fields-dictionary-for-several-feedbacks', case,
                              'this call gave no location; delivered %r' % (getattr(fb, 'message', None),))
        elif raised is not None:
            ctx.violation('C20|constructor-raised|%s|one-fields-dictionary-for-several-feedbacks' % type(raised).__name__, case, repr(raised)[:200])
        else:
            want = template.replace('{who}', str(given['who']))
            if needs_location and str(kw['location']) not in fb.message:
                ctx.violation('C20|message-differs|one-fields-dictionary-for-several-feedbacks', case, 'expected the location %r in %r' % (kw['location'], fb.message))
            elif not needs_location and fb.message != want:
                ctx.violation('C20|message-differs|one-fields-dictionary-for-several-feedbacks', case, 'expected %r, got %r' % (want, fb.message))
        shared['who'] = rng.choice(['first', 'second', 'third'])
        if t % 40 == 39:
            clear_report()
    # (b)
    report.format = Formatter()
    constants = {'label_text': 'const', 'const_value': 1}

    class with_constants(Feedback):
        title = 'With constants'
        message_template = 'Template for {label_text} ({const_value!r}) and {who}'
        constant_fields = dict(constants)

    history = []
    for t in range(ctx.pick(60, 600)):
        how = rng.choice(['kw', 'kw', 'fields', 'none', 'location-only'])
        who = rng.choice(['first', 'second', 'third', 'x%d' % t])
        history.append((how, who))
        case = {'scenario': 'class-with-constant-fields', 'history': history[-6:]}
        n0, i0 = len(report.feedback), len(report.ignored_feedback)
        raised = fb = None
        try:
            if how == 'kw':
                fb = with_constants(who=who)
            elif how == 'fields':
                fb = with_constants(fields={'who': who})
            elif how == 'location-only':
                fb = with_constants(location=3)
            else:
                fb = with_constants()
        except BaseException as e:
            raised = e
        ctx.count('constructions_of_a_class_with_constant_fields')
        ctx.case('const:' + repr(history[-3:]))
        if with_constants.constant_fields != constants:
            ctx.violation('C20|class-constants-changed-by-a-construction', case, 'constant_fields is now %r' % (with_constants.constant_fields,))
        if how in ('kw', 'fields'):
            want = 'Template for const (1) and %s' % who
            if raised is not None:
                ctx.violation('C20|constructor-raised|%s|class-with-constant-fields' % type(raised).__name__, case, repr(raised)[:200])
            elif fb.message != want or not any(x is fb for x in report.feedback[n0:]):
                ctx.violation('C20|message-differs|class-with-constant-fields', case, 'expected %r, got %r' % (want, fb.message))
        else:
            # the template needs a field this call did not give: evaluating the message raises -> untriggered, error status, and the
            # exception reaches the caller
            ctx.count('error_paths_observed')
            if raised is None:
                ctx.violation('C20|message-error-not-raised|class-with-constant-fields', case,
                              'the call gave no {who}; delivered %r' % (getattr(fb, 'message', None),))
            elif not isinstance(raised, KeyError):
                ctx.violation('C20|constructor-raised|%s|class-with-constant-fields' % type(raised).__name__, case, repr(raised)[:200])
            if len(report.feedback) != n0:
                ctx.violation('C20|errored-feedback-on-triggered-list|class-with-constant-fields', case, [f.label for f in report.feedback[n0:]])
        if t % 50 == 49:
            clear_report()
            history.append(('clear', None))


def check_logging_commands(ctx):
    """log() and debug(): each call (each item, for debug) adds exactly one feedback to the triggered list, and the message that was
    given is the message delivered"""
    from pedal.core import commands as cmd
    from pedal.core.commands import clear_report
    from pedal.core.report import MAIN_REPORT
    rng = ctx.rng
    report = MAIN_REPORT
    clear_report()
    texts = ['value is 5', 'x', 'two words', 'with {braces}', 'Ünicode', '']
    for t in range(ctx.pick(30, 300)):
        which = rng.choice(['log', 'debug'])
        items = [rng.choice(texts) for _ in range(rng.randint(1, 3))]
        case = {'scenario': 'logging-commands', 'command': which, 'items': items}
        n0, i0 = len(report.feedback), len(report.ignored_feedback)
        try:
            if which == 'log':
                cmd.log(*items)
                want = [' '.join(items)]
            else:
                cmd.debug(*items)
                want = list(items)
        except Exception as e:
            ctx.violation('C20|constructor-raised|%s|%s' % (type(e).__name__, which), case, traceback.format_exc()[-300:])
            continue
        new = report.feedback[n0:]
        ctx.count('constructions_driven')
        ctx.count('logging_commands_checked')
        ctx.case('logging:%s:%r' % (which, items))
        if len(new) != len(want) or len(report.ignored_feedback) != i0:
            ctx.violation('C20|recorded-%d-times|%s' % (len(new), which), case, 'expected %d feedback objects on the triggered list, found %d (untriggered list grew by %d)'
                          % (len(want), len(new), len(report.ignored_feedback) - i0))
            continue
        got = [f.message for f in new]
        ctx.count('renderings_compared', len(want))
        if got != want:
            ctx.violation('C20|message-differs|explicit-message|%s' % which, case, 'given %r, delivered %r' % (want, got))
        if t % 40 == 39:
            clear_report()


def run(ctx):
    import_everything()
    from monitors import feedback_mon
    if ctx.shard == 0:
        from vlib.repotests import run_under_monitors
        run_under_monitors(ctx, ['feedback_mon'])
        return
    targets = override_targets()
    snap = snapshot_classes()
    feedback_mon.install(ctx, 'C20')
    run_constructions(ctx, ctx.pick(400, 12000))
    check_class_level_scenarios(ctx)
    check_logging_commands(ctx)
    run_overrides(ctx, ctx.pick(60, 2500), snap, targets)


def replay(ctx, case):
    import_everything()
    from monitors import feedback_mon
    targets = override_targets()
    snap = snapshot_classes()
    feedback_mon.install(ctx, 'C20')
    if case.get('scenario') == 'logging-commands':
        check_logging_commands(ctx)
    elif case.get('scenario') in ('formatter-with-own-formats', 'class-with-constant-fields'):
        check_class_level_scenarios(ctx)
    elif 'sequence' in case:
        check_override_sequence(ctx, [tuple(s) for s in case['sequence']], dict(targets), snap)
    else:
        # constructions are replayed by re-running the generator on a small budget (cases are not self-contained objects)
        run_constructions(ctx, 400)
