"""C05 - whatever the sandbox patches is restored after every execution, however it ends."""
from props import sbx_common as sc

ID = 'C05'
LEVEL = 'exploration'
TECHNIQUE = 'invariant monitor at the call boundary (return and raise paths): identity snapshot of sys.stdout/time.sleep/sys.gettrace/sys.modules/builtins and the sandbox stacks before vs after, plus a probe execution'
LEVEL_TEXT = ('Held on the executions observed: around every outermost run/call/evaluate, whether it returned or raised, the '
              'monitor compares identity of sys.stdout, time.sleep, sys.gettrace(), every pre-existing sys.modules entry and the '
              'builtins pedal mocks with the pre-call snapshot, requires that no sandbox module override is left in sys.modules and '
              'that _current_patches/_current_stdout are empty, then runs a probe whose captured output must be exactly its own. '
              'Driven over the termination-mode matrix (incl. KeyboardInterrupt/GeneratorExit/custom BaseException and internal '
              'failures while building the feedback) x entry x tracer x threaded x history, and over random multi-execution '
              'histories in one sandbox; programs whose clean-up outlasts the time limit while the next grading runs; objects of the '
              'student\'s own classes as arguments of call(); a program that installs a trace function.')
LEVEL_NOTE = ('Modules first imported during the call are counted, not judged. Time limits: every non-terminating program x entry x '
              'tracer here, plus programs whose clean-up after the interrupt goes on (until the harness lets it end) while the next '
              'grading runs; the interleavings of the two threads inside pedal are C14\'s. A measurement of coverage.py that is still '
              'on its stack once no student thread is alive counts as trace state left behind. Trusted: the snapshot itself.')
RULE = sc.__doc__.split('\n')[0] + ' Cells as in C04 (mode, entry, tracer, threaded, position) plus sequences of 2-6 executions in one sandbox; distinct = distinct cell/sequence.'
ASSUMPTIONS = ['identity of the listed process-global objects is the borrowed state the statement names']
SHARDS = {'quick': 16, 'thorough': 32}
BUDGET = {'quick': 60, 'thorough': 1200}
MIN_NONTRIVIAL = {'quick': 600, 'thorough': 5000}
REQUIRED_COUNTERS = {'quick': ['state_comparisons', 'probe_runs'], 'thorough': ['state_comparisons', 'probe_runs', 'sequence_steps']}
EXHAUSTIVE = {'quick': False, 'thorough': True}


def run(ctx):
    sc.run(ctx, ID)


def replay(ctx, case):
    sc.replay(ctx, ID, case)
