"""Shared workload for C04 (failures contained and reported) and C05 (patches restored).

One execution engine, two projections:
  * C04: the call returned, get_exception() is the reference class, exactly one new runtime feedback naming
    that class, located on the student's line when the reference traceback ends in the student file.
  * C05: around every outermost run/call/evaluate (return OR raise) the borrowed process state is what it
    was before the call and the sandbox's stacks are empty; a probe run then captures exactly its own text.

The reference is plain CPython: the same student file exec'd in this process.
"""
import builtins
import unicodedata   # noqa: F401 - must be in sys.modules BEFORE any sandbox run: CPython caches a C pointer into this
#                      module the first time a '\\N{...}' escape is decoded; if that first import happens inside pedal's
#                      patch.dict(sys.modules) the module is dropped afterwards and the next '\\N{...}' segfaults.
import contextlib
import io
import sys
import time
import traceback

# ----------------------------------------------------------------------------------------------------------
# termination modes: (name, body lines executed at the point of failure, kind)
#   kind 'exc'     : CPython reference gives the expected class and line
#   kind 'blocked' : a feature pedal blocks; only internal consistency + the expected pedal class name
#   kind 'base'    : non-Exception BaseException (outside C04's quantifier, inside C05's)
#   kind 'ok'      : terminates normally
# ----------------------------------------------------------------------------------------------------------

BUILTIN_RAISES = [
    ('ValueError', "raise ValueError('bad value')"), ('TypeError', "raise TypeError('bad type')"),
    ('NameError', "print(undefined_name)"), ('ZeroDivisionError', "x = 1 / 0"), ('IndexError', "x = [1, 2][5]"),
    ('KeyError', "x = {'a': 1}['b']"), ('KeyError-int', "x = {}[3]"), ('AttributeError', "x = 'abc'.nope"),
    ('AssertionError', "assert 1 == 2, 'nope'"), ('AssertionError-bare', "assert False"),
    ('RuntimeError', "raise RuntimeError('rt')"), ('NotImplementedError', "raise NotImplementedError"),
    ('StopIteration', "next(iter([]))"), ('OverflowError', "x = 2.0 ** 100000"), ('ImportError', "import no_such_module_xyz"),
    ('ImportError-from', "from math import no_such_name"), ('OSError', "raise OSError(2, 'No such file')"),
    ('FileNotFoundError', "open('no_such_file_here.txt')"), ('UnicodeDecodeError', "b'\\xff'.decode('utf-8')"),
    ('UnicodeEncodeError', "'\\u2603'.encode('ascii')"), ('LookupError', "raise LookupError('l')"),
    ('ArithmeticError', "raise ArithmeticError"), ('EOFError', "raise EOFError('eof')"), ('MemoryError', "raise MemoryError('mem')"),
    ('BufferError', "raise BufferError"), ('TimeoutError-raised', "raise TimeoutError('fake')"),
    ('PermissionError', "raise PermissionError(13, 'denied')"), ('ConnectionError', "raise ConnectionError('c')"),
    ('Exception', "raise Exception('plain')"), ('Exception-noargs', "raise Exception"), ('Exception-manyargs', "raise Exception(1, 'two', [3])"),
    ('Exception-nonstr-arg', "raise ValueError(42)"), ('Exception-empty-msg', "raise ValueError('')"),
    ('UnboundLocalError', "def g():\n    print(q)\n    q = 1\ng()"), ('TypeError-call', "len(5)"), ('TypeError-arity', "def g(a):\n    return a\ng()"),
    ('ValueError-int', "int('five')"), ('RecursionError', "def g(n):\n    return g(n + 1)\ng(0)"),
    ('RecursionError-mutual', "def g(n):\n    return h(n)\ndef h(n):\n    return g(n)\ng(0)"),
    ('RecursionError-repr', "class R:\n    def __repr__(self):\n        return repr(self)\nprint(R())"),
    ('SyntaxError-raised', "raise SyntaxError('made up')"), ('SyntaxError-raised-fields', "raise SyntaxError('made up', ('answer.py', 1, 1, 'x'))"),
    ('IndentationError-raised', "raise IndentationError('made up')"),
    ('KeyError-raised-noargs', "raise KeyError"), ('StopIteration-value', "raise StopIteration(5)"),
    ('json-error', "import json\njson.loads('{bad')"), ('math-domain', "import math\nmath.sqrt(-1)"),
    ('user-exception', "class MyError(Exception):\n    pass\nraise MyError('mine')"),
    ('user-exception-str-raises', "class MyError(Exception):\n    def __str__(self):\n        raise RuntimeError('no str')\nraise MyError('mine')"),
    ('user-exception-repr-raises', "class MyError(Exception):\n    def __repr__(self):\n        raise RuntimeError('no repr')\nraise MyError('mine')"),
    ('user-exception-str-nonstr', "class MyError(Exception):\n    def __str__(self):\n        return 5\nraise MyError('mine')"),
    ('user-exception-str-empty', "class MyError(Exception):\n    def __str__(self):\n        return ''\nraise MyError('mine')"),
    ('user-exception-init-no-super', "class MyError(Exception):\n    def __init__(self, a, b):\n        self.a = a\nraise MyError(1, 2)"),
    ('user-exception-kwonly-init', "class MyError(Exception):\n    def __init__(self, *, code):\n        super().__init__('code %s' % code)\nraise MyError(code=3)"),
    ('user-exception-feedback-readonly', "class MyError(Exception):\n    @property\n    def feedback(self):\n        return None\nraise MyError('ro')"),
    ('user-exception-slots', "class MyError(Exception):\n    __slots__ = ()\nraise MyError('slots')"),
    ('user-exception-subclass-keyerror', "class MyKey(KeyError):\n    pass\nraise MyKey('k')"),
    ('user-exception-subclass-typeerror', "class MyType(TypeError):\n    pass\nraise MyType('t')"),
    ('exception-chained-from', "try:\n    x = 1 / 0\nexcept ZeroDivisionError as e:\n    raise ValueError('chained') from e"),
    ('exception-in-except', "try:\n    x = 1 / 0\nexcept ZeroDivisionError:\n    y = [][1]"),
    ('exception-in-finally', "try:\n    x = 1\nfinally:\n    y = {}['k']"),
    ('exception-in-try-finally-multiline', "try:\n    x = [][1]\nfinally:\n    y = 1\n    z = 2\n    w = 3"),
    ('exception-logged-and-reraised', "try:\n    x = 1 / 0\nexcept ZeroDivisionError:\n    note = 'logged'\n    count = 1\n    raise"),
    ('exception-reraised-as-other', "try:\n    x = int('q')\nexcept ValueError as e:\n    note = 'logged'\n    raise KeyError('other')"),
    ('exception-in-with-block', "class CM:\n    def __enter__(self):\n        return self\n    def __exit__(self, *a):\n        self.done = True\n        return False\nwith CM() as c:\n    x = {}['k']\n    y = 2"),
    ('exception-in-nested-function-finally', "def inner():\n    try:\n        return [1][3]\n    finally:\n        a = 1\n        b = 2\ndef outer():\n    v = inner()\n    return v\nouter()"),
    ('exception-in-comprehension', "x = [1 / (i - 2) for i in range(5)]"),
    ('exception-in-class-body', "class K:\n    y = undefined_thing"),
    ('exception-in-lambda', "f = lambda v: v.missing\nf(3)"),
    ('exception-in-generator', "def gen():\n    yield 1\n    raise ValueError('gen')\nfor v in gen():\n    pass"),
    ('user-exception-str-exits', "import sys\nclass MyError(Exception):\n    def __str__(self):\n        sys.exit(3)\nraise MyError('mine')"),
    ('user-exception-str-raises-base', "class Stop(BaseException):\n    pass\nclass MyError(Exception):\n    def __str__(self):\n        raise Stop()\nraise MyError('mine')"),
    ('user-exception-repr-exits', "class MyError(Exception):\n    def __repr__(self):\n        raise SystemExit\nraise MyError('mine')"),
    ('user-exception-setattr-raises', "class MyError(Exception):\n    def __setattr__(self, k, v):\n        raise ValueError('frozen')\nraise MyError('mine')"),
    ('user-exception-setattr-exits', "import sys\nclass MyError(Exception):\n    def __setattr__(self, k, v):\n        sys.exit(4)\nraise MyError('mine')"),
    ('user-exception-getattribute-raises', "class MyError(Exception):\n    def __getattribute__(self, name):\n        raise RuntimeError('no ' + name)\nraise MyError('mine')"),
    ('user-exception-len-zero', "class MyError(Exception):\n    def __len__(self):\n        return 0\nraise MyError('mine')"),
    ('user-exception-bool-raises', "class MyError(Exception):\n    def __bool__(self):\n        raise RuntimeError('no bool')\nraise MyError('mine')"),
    ('user-exception-eq-raises', "class MyError(Exception):\n    def __eq__(self, other):\n        raise RuntimeError('no eq')\n    __hash__ = None\nraise MyError('mine')"),
    ('user-exception-args-raises', "class MyError(Exception):\n    @property\n    def args(self):\n        raise RuntimeError('no args')\nraise MyError('mine')"),
    ('user-exception-getattr-raises', "class MyError(Exception):\n    def __getattr__(self, name):\n        raise RuntimeError('no attribute ' + name)\nraise MyError('mine')"),
    ('user-exception-metaclass-name', "class Meta(type):\n    def __str__(cls):\n        raise RuntimeError('no class str')\n    __repr__ = __str__\nclass MyError(Exception, metaclass=Meta):\n    pass\nraise MyError('mine')"),
    ('SyntaxError-raised-lineno-text', "raise SyntaxError('made up', ('answer.py', 'notanint', None, None))"),
    ('SyntaxError-raised-lineno-negative', "raise SyntaxError('made up', ('answer.py', -5, 5, 'abc'))"),
    ('SyntaxError-raised-lineno-float', "raise SyntaxError('made up', ('answer.py', 1.5, 1, 'abc'))"),
    ('SyntaxError-raised-offset-text', "raise SyntaxError('made up', ('answer.py', 1, 'a', None))"),
    ('SyntaxError-raised-other-file', "raise SyntaxError('made up', ('/etc/passwd', 1, 5, 'abc'))"),
    ('SyntaxError-raised-line-past-the-end', "raise SyntaxError('made up', ('answer.py', 500, 2, 'abc', 501, 3))"),
    ('exception-after-sys-modules-rebound', "import sys\nsys.modules = {}\nx = 1 / 0"),
    ('user-exception-str-returns-str-subclass', "class Odd(str):\n    def __getitem__(self, k):\n        raise RuntimeError('no slicing')\n    def upper(self):\n        raise RuntimeError('no upper')\nclass MyError(Exception):\n    def __str__(self):\n        return Odd('mine')\nraise MyError('mine')"),
    ('user-exception-class-name-empty', "class MyError(Exception):\n    pass\nMyError.__name__ = ''\nraise MyError('mine')"),
    ('user-exception-metaclass-name-raises', "class Meta(type):\n    @property\n    def __name__(cls):\n        raise RuntimeError('no name')\nclass MyError(Exception, metaclass=Meta):\n    pass\nraise MyError('mine')"),
    ('user-exception-str-replaces-stdout', "import sys\nclass MyError(Exception):\n    def __str__(self):\n        sys.stdout = None\n        return 'mine'\nraise MyError('mine')"),
    ('user-exception-str-replaces-sleep', "import time\nclass MyError(Exception):\n    def __str__(self):\n        time.sleep = len\n        return 'mine'\nraise MyError('mine')"),
    ('user-exception-str-imports', "class MyError(Exception):\n    def __str__(self):\n        import colorsys, sndhdr\n        return 'mine'\nraise MyError('mine')"),
    ('user-exception-str-prints', "class MyError(Exception):\n    def __str__(self):\n        print('describing')\n        return 'mine'\nraise MyError('mine')"),
    ('exception-after-importing-own-file', "import tools_of_mine\nx = tools_of_mine.double(2) / 0"),
    ('exception-in-own-imported-file', "import tools_of_mine\nx = tools_of_mine.double(None)"),
    ('exception-after-stdout-closed', "import sys\nsys.stdout.close()\nx = 1 / 0"),
    ('exception-after-stdout-replaced', "import sys\nsys.stdout = None\nx = 1 / 0"),
    ('exception-after-lowering-the-recursion-limit', "import sys\nfor n in range(5, 400):\n    try:\n        sys.setrecursionlimit(n)\n        break\n    except RecursionError:\n        pass\nx = 1 / 0"),
    ('exception-deep-frames', "def d0(n):\n    if n == 0:\n        return 1 // 0\n    return d0(n - 1)\nd0(12)"),
    ('exception-in-method', "class K:\n    def m(self):\n        return self.zzz\nK().m()"),
    ('exception-in-sorted-key', "sorted([3, 1], key=lambda v: v.k)"),
    ('exception-after-output', "print('before')\nx = [0][2]"),
    ('exception-with-input', "v = input('prompt')\nint('x' + v)"),
    ('raise-string', "raise 'not an exception'"), ('raise-class-needing-args', "raise UnicodeDecodeError"),
    ('exit-SystemExit-raise', "raise SystemExit"), ('exit-SystemExit-code', "raise SystemExit(3)"), ('exit-SystemExit-msg', "raise SystemExit('bye')"),
    ('exit-sys-exit', "import sys\nsys.exit()"), ('exit-sys-exit-code', "import sys\nsys.exit(2)"), ('exit-quit', "quit()"),
    ('exit-in-function', "import sys\ndef g():\n    sys.exit(1)\ng()"),
]
BLOCKED = [
    ('blocked-exit', "exit()", None), ('blocked-compile', "compile('1', 'f', 'eval')", None), ('blocked-eval', "eval('1 + 1')", None),
    ('blocked-exec', "exec('x = 1')", None), ('blocked-globals', "g = globals()", None),
    ('blocked-open-py', "open('answer.py')", 'RuntimeError'), ('blocked-open-dot', "open('./data.txt')", 'RuntimeError'),
    ('blocked-open-write', "open('out.txt', 'w')", 'RuntimeError'), ('blocked-open-append', "open('out.txt', 'a')", 'RuntimeError'),
    ('blocked-import-pedal', "import pedal", None), ('blocked-import-pedal-sub', "import pedal.core.report", None),
    ('blocked-from-pedal', "from pedal import set_correct", None), ('blocked-import-pedal-in-func', "def g():\n    import pedal\ng()", None),
]
BASE = [
    ('base-KeyboardInterrupt', "raise KeyboardInterrupt"), ('base-GeneratorExit', "raise GeneratorExit"),
    ('base-custom', "class Stop(BaseException):\n    pass\nraise Stop('base')"), ('base-BaseException', "raise BaseException('b')"),
    # an ordinary failure whose description is cut short by an interrupt: the exception that ends the call is raised while pedal
    # records the student's one, not by the student's program itself (seeded C05-18)
    ('base-KeyboardInterrupt-while-described', "class MyError(Exception):\n    def __str__(self):\n        raise KeyboardInterrupt\nraise MyError('mine')"),
    ('base-KeyboardInterrupt-while-repr', "class MyError(Exception):\n    def __repr__(self):\n        raise KeyboardInterrupt\n    __str__ = __repr__\nraise MyError('mine')"),
]
OKAY = [
    ('ok-sets-a-trace-function', "import sys\nsys.settrace(lambda *a: None)\nx = 1"),
    ('ok-print', "print('fine')"), ('ok-silent', "x = 1"), ('ok-input', "v = input('p')\nprint(v)"),
    ('ok-import', "import json\nimport string\nprint(json.dumps([1]))"), ('ok-handled', "try:\n    1 / 0\nexcept ZeroDivisionError:\n    print('handled')"),
    ('ok-stdout-closed', "import sys\nprint('said')\nsys.stdout.close()"), ('ok-stdout-reassigned', "import sys, io\nsys.stdout = io.StringIO()\nprint('lost')"),
    ('ok-stdout-deleted', "import sys\ndel sys.stdout"), ('ok-sys-modules-rebound', "import sys\nsys.modules = dict(sys.modules)"), ('ok-sys-modules-emptied', "import sys\nsys.modules = {}"), ('ok-sleep-replaced', "import time\ntime.sleep = None"),
    ('ok-sleep', "import time\ntime.sleep(0.01)\nprint('slept')"), ('ok-write', "import sys\nsys.stdout.write('w')"),
]
COMPILE_FAIL = [
    ('compile-syntax', "x = = 1"), ('compile-unclosed', "print((1, 2)"), ('compile-indent', "if True:\nx = 1"),
    ('compile-unindent', "if True:\n        x = 1\n    y = 2"), ('compile-tab', "if True:\n\tx = 1\n        y = 2"),
    ('compile-nul', "x = 1\x00"), ('compile-deep-brackets', "x = " + "(" * 300 + "1" + ")" * 300),
    ('compile-bad-string', "x = 'abc"), ('compile-return-outside', "return 5"), ('compile-break-outside', "break"),
    ('compile-bad-unicode-escape', "x = '\\N{NOPE}'"), ('compile-fstring', "x = f'{1 +}'"), ('compile-assign-literal', "1 = x"),
    ('compile-nonlocal', "nonlocal q"), ('compile-dup-arg', "def g(a, a):\n    pass"),
]
TIMEOUTS = [
    ('timeout-busy-loop', "while True:\n    pass"), ('timeout-print-loop', "n = 0\nwhile True:\n    n += 1\n    if n % 5000 == 0:\n        print(n)"),
    ('timeout-swallows-the-interrupt', "try:\n    while True:\n        pass\nexcept BaseException:\n    swallowed = True"),
    ('timeout-in-function', "def spin():\n    while True:\n        pass\nspin()"),
    ('timeout-after-importing-own-file', "import tools_of_mine\nn = tools_of_mine.double(2)\nwhile True:\n    n += 1"),
]
PRELUDE = "total = 0\nwords = ['a', 'b']\n\n"   # two student lines + blank before the failing body (line 4 on)


BLOCKED_BUILTIN = {'blocked-exit': 'exit', 'blocked-compile': 'compile', 'blocked-eval': 'eval', 'blocked-exec': 'exec', 'blocked-globals': 'globals'}


def all_modes():
    out = []
    for n, b in BUILTIN_RAISES:
        out.append({'mode': n, 'body': b, 'kind': 'exc'})
    for n, b, cls in BLOCKED:
        out.append({'mode': n, 'body': b, 'kind': 'blocked', 'cls': cls})
    for n, b in BASE:
        out.append({'mode': n, 'body': b, 'kind': 'base'})
    for n, b in OKAY:
        out.append({'mode': n, 'body': b, 'kind': 'ok'})
    for n, b in COMPILE_FAIL:
        out.append({'mode': n, 'body': b, 'kind': 'compile'})
    for n, b in TIMEOUTS:
        out.append({'mode': n, 'body': b, 'kind': 'timeout'})
    return out


ENTRIES = ['run', 'call', 'evaluate', 'import', 'run-code']
ENVS = ['plain', 'outer-trace', 'outer-patchers', 'before-and-after-code', 'time-module-blocked', 'time-module-replaced', 'html-formatter', 'text-formatter', 'in-a-later-section',
        'gradescope-formatter', 'vpl-formatter', 'terminal-formatter', 'a-report-of-its-own', 'after-the-sections-were-stopped',
        'failpoint-traceback', 'failpoint-feedback']


class InjectedFailure(RuntimeError):
    pass


def _outer_trace(frame, event, arg):
    return None


class Env:
    """Process state the instructor's own harness may hold while it calls the sandbox (an installed trace function,
    live mock patchers), or a failpoint that makes pedal fail while it records the student's failure."""
    def __init__(self, name):
        self.name = name
        self.undo = []

    def __enter__(self):
        from unittest import mock
        if self.name in ('outer-trace', 'only-the-import-is-threaded+outer-trace'):
            old = sys.gettrace()
            sys.settrace(_outer_trace)
            self.undo.append(lambda: sys.settrace(old))
        elif self.name == 'outer-patchers':
            import types
            fake = types.ModuleType('verif_fake_module')
            self.out = io.StringIO()
            ps = [mock.patch('time.sleep', lambda *a, **k: None), mock.patch.dict('sys.modules', {'verif_fake_module': fake}),
                  mock.patch('sys.stdout', self.out)]
            for p in ps:
                p.start()
            def stop():
                for p in reversed(ps):
                    try:
                        p.stop()
                    except Exception:
                        pass
            self.undo.append(stop)
        elif self.name in ('failpoint-traceback', 'failpoint-feedback'):
            import pedal.sandbox.sandbox as sm
            if self.name == 'failpoint-traceback':
                orig = sm.ExpandedTraceback
                def boom(*a, **k):
                    raise InjectedFailure('failpoint: building the traceback failed')
                sm.ExpandedTraceback = boom
                self.undo.append(lambda: setattr(sm, 'ExpandedTraceback', orig))
            else:
                orig_rt, orig_map = sm.runtime_error, dict(sm.EXCEPTION_FF_MAP)
                def boom(*a, **k):
                    raise InjectedFailure('failpoint: building the feedback failed')
                sm.runtime_error = boom
                for k in list(sm.EXCEPTION_FF_MAP):
                    sm.EXCEPTION_FF_MAP[k] = boom
                def restore():
                    sm.runtime_error = orig_rt
                    sm.EXCEPTION_FF_MAP.clear()
                    sm.EXCEPTION_FF_MAP.update(orig_map)
                self.undo.append(restore)
        return self

    def __exit__(self, *a):
        for u in reversed(self.undo):
            u()
        return False

TRACERS = ['none', 'native', 'calls', 'coverage']


def indent(text, n=4):
    return '\n'.join((' ' * n + l) if l else l for l in text.split('\n'))


OWN_MODULE = {'tools_of_mine.py': 'def double(x):\n    return 2 * x\n'}


def build_files(mode, entry):
    files = _build_files(mode, entry)
    files.update(OWN_MODULE)       # a second file of the student's, which some bodies import (and finish importing) first
    return files


def _build_files(mode, entry):
    """-> (files dict, main_file, how to trigger) ; student line numbers are whole-file."""
    body = mode['body']
    if entry == 'run' or mode['kind'] == 'compile' and entry != 'import':
        return {'answer.py': PRELUDE + body + '\n'}
    if entry in ('call', 'evaluate'):
        return {'answer.py': PRELUDE + 'def trigger(a=1, b=2):\n' + indent(body) + '\n    return a + b\n'}
    if entry == 'import':
        return {'answer.py': PRELUDE + 'import helper\nprint("after import", helper.h)\n', 'helper.py': 'h = 1\n' + body + '\n'}
    if entry == 'run-code':
        return {'answer.py': PRELUDE + 'x = 5\n'}
    raise ValueError(entry)


class RefResult:
    def __init__(self):
        self.exc = None
        self.cls = None
        self.line = None          # innermost line when the innermost frame is in a student file
        self.innermost_file = None
        self.output = ''


STUDENT_FILES = ('answer.py', 'helper.py', 'tools_of_mine.py')


def _ref_import(files, ns):
    real_import = builtins.__import__

    def imp(name, globals=None, locals=None, fromlist=(), level=0):
        fn = name.replace('.', '/') + '.py'
        if fn in files and name not in sys.modules:
            import types
            m = types.ModuleType(name)
            d = {'__builtins__': ns['__builtins__'], '__name__': name}
            exec(compile(files[fn], fn, 'exec'), d)
            for k, v in d.items():
                setattr(m, k, v)
            return m
        return real_import(name, globals, locals, fromlist, level)
    return imp


def reference(files, entry, inputs, call_args=()):
    """Run the same student files in plain CPython."""
    r = RefResult()
    q = list(inputs)

    def fake_input(prompt=''):
        print(prompt)
        return q.pop(0) if q else '0'
    b = dict(vars(builtins))
    b['input'] = fake_input
    ns = {'__name__': '__main__', '__builtins__': b}
    b['__import__'] = _ref_import(files, ns)
    buf = io.StringIO()
    real_sleep = time.sleep
    real_modules = sys.modules
    real_trace = sys.gettrace()
    real_limit = sys.getrecursionlimit()
    try:
        time.sleep = lambda *a, **k: None
        with contextlib.redirect_stdout(buf):
            try:
                exec(compile(files['answer.py'], 'answer.py', 'exec'), ns)
                if entry == 'call':
                    ns['trigger'](*call_args)
                elif entry == 'evaluate':
                    eval(compile('trigger()', 'instructor.py', 'eval'), ns)
                elif entry == 'run-code':
                    pass
            except BaseException as e:
                sys.setrecursionlimit(real_limit)       # (first of all: the body may have lowered it to just above its own depth)
                r.exc = e
                r.cls = class_name(e)
                tb = traceback.extract_tb(sys.exc_info()[2])      # (not e.__traceback__: the object may answer every attribute with an error)
                if tb:
                    r.innermost_file = tb[-1].filename
                    if tb[-1].filename in STUDENT_FILES:
                        r.line = tb[-1].lineno
    finally:
        sys.setrecursionlimit(real_limit)
        time.sleep = real_sleep
        sys.modules = real_modules          # (the reference run is the real thing: whatever the body rebinds is rebound for real)
        if sys.gettrace() is not real_trace:
            sys.settrace(real_trace)        # (... and a trace function it sets is set in this very thread)
    r.output = buf.getvalue() if not buf.closed else ''
    return r


# ----------------------------------------------------------------------------------------------------------
# C05 state snapshot
# ----------------------------------------------------------------------------------------------------------

class Snapshot:
    def __init__(self, sandbox):
        self.stdout = sys.stdout
        self.stderr = sys.stderr
        self.sleep = time.sleep
        self.trace = sys.gettrace()
        self.modules = dict(sys.modules)
        self.module_table = sys.modules
        self.builtins_input = builtins.input
        self.builtins_open = builtins.open
        self.builtins_import = builtins.__import__
        self.builtins_print = builtins.print

    def diff(self, sandbox):
        """-> list of (what, detail)"""
        out = []
        if sys.stdout is not self.stdout:
            out.append(('sys.stdout', 'is %r' % type(sys.stdout).__name__))
        if time.sleep is not self.sleep:
            out.append(('time.sleep', 'is %r' % (time.sleep,)))
        if sys.gettrace() is not self.trace:
            out.append(('sys.gettrace', 'is %r' % (sys.gettrace(),)))
        for name, attr in (('input', self.builtins_input), ('open', self.builtins_open), ('__import__', self.builtins_import),
                           ('print', self.builtins_print)):
            if getattr(builtins, name) is not attr:
                out.append(('builtins.' + name, 'replaced'))
        now = sys.modules
        if now is not self.module_table:
            out.append(('sys.modules-is-another-object', 'a %s with %d entries' % (type(now).__name__, len(now) if hasattr(now, '__len__') else -1)))
            now = self.module_table
        changed = [k for k, v in self.modules.items() if now.get(k, None) is not v]
        if changed:
            out.append(('sys.modules-entry-changed', sorted(changed)[:5]))
        override_ids = set()
        try:
            for k, v in sandbox._module_overrides.items():
                if k != '__builtins__' and v is not True:
                    override_ids.add(id(v))
        except Exception:
            pass
        leaked = [k for k, v in list(now.items()) if id(v) in override_ids]
        if leaked:
            out.append(('sys.modules-override-left', sorted(leaked)[:5]))
        if sandbox._current_patches:
            out.append(('_current_patches', len(sandbox._current_patches)))
        if sandbox._current_stdout:
            out.append(('_current_stdout', len(sandbox._current_stdout)))
        return out

    def added_modules(self):
        return sorted(k for k in sys.modules if k not in self.modules)

    def restore(self):
        """Undo whatever leaked so that one violation does not cascade into the following cases."""
        sys.stdout = self.stdout
        time.sleep = self.sleep
        collector = sys.modules.get('coverage.collector')
        if collector is not None:
            # (a measurement of coverage.py that was never ended would be resumed at the end of every later one)
            for c in reversed(list(collector.Collector._collectors)):
                try:
                    c.pause()
                except Exception:
                    pass
            del collector.Collector._collectors[:]
        sys.settrace(self.trace)
        sys.modules = self.module_table
        for k in list(sys.modules):
            if k not in self.modules:
                pass
        for k, v in self.modules.items():
            if sys.modules.get(k) is not v:
                sys.modules[k] = v


def measurements_left_running():
    """coverage.py keeps the measurements that were started and not ended on a stack of its own"""
    collector = sys.modules.get('coverage.collector')
    return len(collector.Collector._collectors) if collector is not None else 0


def safe_text(exc):
    """describe an exception object that may come from hostile student code (raising __str__/__bool__/__getattr__)"""
    try:
        return traceback.format_exception_only(type(exc), exc)[-1][:300]
    except BaseException as e:
        return '<%s, not printable: %s>' % (class_name(exc), type(e).__name__)


def class_name(x):
    """the name of x's class - None when that class has no usable name (emptied, or a metaclass that refuses to tell)"""
    try:
        n = type(x).__name__
    except BaseException:
        return None
    return n if isinstance(n, str) and n else None


def safe_repr(x):
    try:
        return repr(x)
    except BaseException as e:
        return '<%s object, repr raises %s>' % (class_name(x), type(e).__name__)


def site_of(exc):
    tb = traceback.extract_tb(exc.__traceback__)
    for fr in reversed(tb):
        if '/pedal/' in fr.filename:
            return '%s:%s' % (fr.filename.split('/pedal/')[-1], fr.name)
    return 'outside-pedal'


def unwrap(x):
    try:
        from pedal.sandbox.result import is_sandbox_result
        if is_sandbox_result(x):
            return object.__getattribute__(x, 'value')
    except Exception:
        pass
    return x


def runtime_feedbacks(report):
    return [f for f in report.feedback if str(f.category or '').lower() == 'runtime']


# ----------------------------------------------------------------------------------------------------------
# one execution under both monitors
# ----------------------------------------------------------------------------------------------------------

class Commands:
    """pedal.sandbox.commands, every call of which is about one report: the default one (None) or a report the grader keeps to
    herself (the way a server that grades many submissions in one process does)"""
    def __init__(self, report=None):
        self.report = report

    def __getattr__(self, name):
        import functools
        from pedal.sandbox import commands
        fn = getattr(commands, name)
        if self.report is None or not callable(fn):
            return fn
        return functools.partial(fn, report=self.report)


OWN_REPORT = [None]         # the report of the cell being executed when it is not the default one


def commands_in_use():
    return Commands(OWN_REPORT[0])


def new_sandbox(files, tracer='none', threaded=False, allowed_time=20, own_report=False):
    from pedal.core.commands import clear_report, contextualize_report
    from pedal.core.report import MAIN_REPORT, Report
    from pedal.core.submission import Submission
    from pedal.sandbox import commands as sbx
    clear_report()
    OWN_REPORT[0] = None
    if own_report:
        # (the default report holds another submission meanwhile: whatever is looked up there by mistake is found, and is wrong)
        contextualize_report(Submission(files={'answer.py': 'the_default_reports_program = 1\nprint(the_default_reports_program)\n'}, main_file='answer.py'))
        report = OWN_REPORT[0] = Report()
        contextualize_report(Submission(files=dict(files), main_file='answer.py'), report=report)
        sandbox = sbx.get_sandbox(report=report)
        if tracer != 'none':
            sandbox.tracer_style = tracer
        if threaded:
            sandbox.threaded = True
            sandbox.allowed_time = allowed_time
        return sandbox, report
    contextualize_report(Submission(files=dict(files), main_file='answer.py'))
    sandbox = sbx.get_sandbox()
    if tracer != 'none':
        sandbox.tracer_style = tracer
    if threaded:
        sandbox.threaded = True
        sandbox.allowed_time = allowed_time
    return sandbox, MAIN_REPORT


def drive(sandbox, entry, case):
    """Performs the entry-point call on an already prepared sandbox. Returns the value returned."""
    sbx = commands_in_use()
    if entry in ('run', 'import'):
        if case.get('env') == 'before-and-after-code':
            # the instructor wraps the student's program between two snippets of her own
            return sbx.run(inputs=case.get('inputs'), before="pre_marker = 1", after="post_marker = 2")
        if case.get('env') in ('only-the-import-is-threaded', 'only-the-import-is-threaded+outer-trace'):
            return sbx.run(inputs=case.get('inputs'), threaded=False)
        return sbx.run(inputs=case.get('inputs'))
    if entry == 'run-code':
        return sbx.run(code=case['mode_body'], inputs=case.get('inputs'))
    if entry == 'call':
        return sbx.call('trigger', inputs=case.get('inputs'))
    if entry == 'evaluate':
        return sbx.evaluate('trigger()')
    raise ValueError(entry)


SECTION_PROLOGUE = 'opening = 1\nprint(opening)\n\n'


def execute_case(ctx, which, case, state=None):
    # (whatever trace function the program of this cell leaves in the harness's own thread - also in steps that are not measured,
    # where no tracer of pedal's is there to put the old one back - is not the next cell's business)
    trace_at_start = sys.gettrace()
    try:
        return _execute_case(ctx, which, case, state)
    finally:
        if sys.gettrace() is not trace_at_start:
            sys.settrace(trace_at_start)


def _execute_case(ctx, which, case, state=None):
    if case.get('mode') == 'exception-after-lowering-the-recursion-limit' and (case.get('tracer', 'none') != 'none' or case.get('threaded') or
                                                                              'outer-trace' in case.get('env', '')):
        # (the limit is the interpreter's: set from a thread of its own it can be lower than the depth the GRADER's thread is at, and
        # under a trace function the program itself has no room left for the next line's callback - other questions than this one)
        ctx.count('cells_skipped_(lowered recursion limit with a tracer or in a thread)')
        return
    """case: {'mode':..., 'body':..., 'kind':..., 'entry':..., 'tracer':..., 'threaded':bool, 'position': 'first'|'after-failure'|'after-ok'}"""
    mode, entry, tracer, threaded = case['mode'], case['entry'], case.get('tracer', 'none'), case.get('threaded', False)
    kind = case['kind']
    import os
    if os.environ.get('VERIF_DEBUG'):
        print('CASE', strip(case), flush=True)
    files = build_files(case, entry)
    inputs = ['7', '8']
    case = dict(case)
    case['inputs'] = inputs
    case['mode_body'] = case['body']
    in_section = case.get('env') == 'in-a-later-section' and entry in ('run', 'call', 'evaluate')
    sandbox_files = files
    if in_section:
        # the student's file is the part after the first marker of a sectioned submission: what the tools report refers to the
        # lines of the whole file
        sandbox_files = dict(files)
        sandbox_files['answer.py'] = SECTION_PROLOGUE + '##### Part 1\n' + files['answer.py']
        files = dict(files)
        files['answer.py'] = '\n' + files['answer.py']        # the section's own text starts with the marker line's end
        case['line_shift'] = SECTION_PROLOGUE.count('\n')
    stopped = case.get('env') == 'after-the-sections-were-stopped' and entry in ('run', 'call', 'evaluate')
    if stopped:
        # the file was split, a later section was looked at, and the grader went back to the whole file (stop_sections()): what is
        # executed and reported now is the whole file again, on its own lines
        sandbox_files = dict(files)
        sandbox_files['answer.py'] = SECTION_PROLOGUE + '##### Part 1\n' + files['answer.py']
        files = dict(sandbox_files)
    try:
        sandbox, report = new_sandbox(sandbox_files, tracer, threaded, allowed_time=0.15 if kind == 'timeout' else 20,
                                      own_report=case.get('env') == 'a-report-of-its-own')
    except ImportError:
        ctx.count('tracer_unavailable')
        return
    sbx = commands_in_use()
    if in_section:
        from pedal.source import separate_into_sections, next_section
        separate_into_sections(independent=True)
        next_section()
        if report.submission.main_code != files['answer.py']:
            ctx.count('section_presentation_not_applicable')
            return
        ctx.count('cells_in_a_later_section')
    if stopped:
        from pedal.source import separate_into_sections, next_section
        from pedal.source.sections import stop_sections
        separate_into_sections(independent=True)
        next_section()
        stop_sections()
        if report.submission.main_code != files['answer.py']:
            ctx.count('section_presentation_not_applicable')
            return
        ctx.count('cells_after_the_sections_were_stopped')
    key_tail = '%s|%s' % (entry, 'threaded' if threaded else 'direct')
    # ---- history before the measured execution ---------------------------------------------------------
    pos = case.get('position', 'first')
    if entry in ('call', 'evaluate') and kind != 'compile':
        pre = sbx.run()     # defines trigger(); must not fail
        if sbx.get_exception() is not None:
            ctx.count('setup_run_failed')
            return
    if pos == 'after-failure':
        sbx.run(code='zz = 1 / 0')
    elif pos == 'after-ok':
        sbx.run(code='print("warm")')
    elif pos == 'after-clear_context':
        sbx.run(code='print("warm")')
        sbx.run(code='zz = 2')
        sandbox.clear_context()
    elif pos == 'after-the-builtin-was-allowed-for-an-earlier-execution':
        # the instructor let her own warm-up code use the builtin, then put the block back before the student's code ran
        name = BLOCKED_BUILTIN[case['mode']]
        sandbox.allow_function(name)
        sbx.run(code='warm = %s' % {'eval': "eval('1 + 1')", 'exec': "exec('w = 1')", 'compile': "compile('1', 'f', 'eval')", 'globals': 'len(globals())',
                                    'exit': '1'}[name])
        if sbx.get_exception() is not None:
            ctx.count('setup_run_failed')
            return
        sandbox.block_function(name)
        ctx.count('cells_after_a_builtin_was_allowed_and_blocked_again')
    elif pos == 'the-same-execution-before' and kind != 'timeout':
        # the very same execution was already done once on this sandbox (an instructor re-running the program with other
        # inputs): the second time is the measured one
        try:
            drive(sandbox, entry if not (kind == 'compile' and entry in ('call', 'evaluate')) else 'run', case)
        except BaseException:
            pass
        if kind != 'base':
            # whatever the first time left patched is that execution's violation, not this one's
            pass
    n_rt_before = len(runtime_feedbacks(report))
    envname = case.get('env', 'plain')
    if envname.startswith('time-module') and 'time' in case['body'].replace('timeout', ''):
        ctx.count('cells_skipped_(the_program_itself_uses_the_module_the_instructor_blocked)')
        return
    if envname == 'time-module-blocked':
        # the instructor forbids a module - here the one whose sleep() pedal itself replaces during an execution
        sandbox.block_module('time')
    elif envname == 'time-module-replaced':
        sandbox.mock_module('time', {'sleep': lambda seconds: None, 'time': lambda: 0.0}, 'time')
    elif envname in ('html-formatter', 'text-formatter'):
        # the environment's choice of formatter: the failure's message and traceback are rendered through it
        from pedal.core import formatting
        report.format = formatting.HtmlFormatter() if envname == 'html-formatter' else formatting.TextFormatter()
    elif envname == 'gradescope-formatter':
        from pedal.environments.gradescope import GradeScopeFormatter
        report.set_formatter(GradeScopeFormatter(report))
    elif envname == 'vpl-formatter':
        from pedal.environments.vpl import VPLFormatter
        report.set_formatter(VPLFormatter(report))
    elif envname == 'terminal-formatter':
        from pedal.environments.terminal import TerminalFormatter
        report.set_formatter(TerminalFormatter(report))
    with Env(envname):
        return _measured(ctx, which, case, sandbox, report, files, inputs, n_rt_before)


def _measured(ctx, which, case, sandbox, report, files, inputs, n_rt_before):
    sbx = commands_in_use()
    mode, entry, tracer, threaded = case['mode'], case['entry'], case.get('tracer', 'none'), case.get('threaded', False)
    kind = case['kind']
    key_tail = '%s|%s' % (entry, 'threaded' if threaded else 'direct')
    pos = case.get('position', 'first')
    envname = case.get('env', 'plain')
    snap = Snapshot(sandbox)
    if kind == 'timeout':
        ref = RefResult()       # never ends: there is no plain-CPython reference, and C05 needs none
    else:
        ref = reference(files, 'run' if kind == 'compile' and entry != 'import' else entry, inputs) if entry != 'run-code' else \
            reference(dict(OWN_MODULE, **{'answer.py': case['body'] + '\n'}), 'run', inputs)
    if entry == 'run-code' and ref.line is not None:
        ref.line = None         # instructor-supplied code: no student line
    # ---- the measured call ---------------------------------------------------------------------------
    raised = None
    ret = None
    try:
        ret = drive(sandbox, entry if not (kind == 'compile' and entry in ('call', 'evaluate')) else 'run', case)
    except BaseException as e:
        raised = e
    diffs = snap.diff(sandbox)
    ctx.count('executions')
    ctx.seen('modes', mode)
    ctx.seen('entries', entry)
    ctx.seen('tracers', tracer)
    cell = '%s/%s/%s/%s/%s/%s' % (mode, entry, tracer, 'T' if threaded else 'D', pos, envname)
    ctx.seen('environments', envname)
    if raised is not None and isinstance(raised, InjectedFailure):
        ctx.count('injected_failures_reached')
    ctx.case(cell)
    # ---------------------------------------------------------------- C05 projection -------------------
    if which == 'C05':
        ctx.count('state_comparisons')
        for what, detail in diffs:
            if what == 'sys.gettrace' and tracer == 'none' and mode == 'ok-sets-a-trace-function':
                # (the statement speaks of the trace function when tracing is enabled; without a tracer pedal does not touch it)
                ctx.count('gettrace_not_judged_no_tracer_and_the_program_set_one')
                continue
            if what == 'sys.gettrace' and envname.endswith('outer-trace') and mode.startswith('RecursionError'):
                # CPython itself removes a trace function that raises, and the harness's own trace function raises
                # RecursionError when the student's recursion exhausts the stack: not pedal's doing
                ctx.count('gettrace_not_judged_recursion_in_outer_trace')
                continue
            ctx.violation('C05|not-restored|%s|after-%s|%s%s' % (what if what != 'sys.gettrace' else 'sys.gettrace|tracer=' + tracer,
                                                                  termination_class(kind, mode, raised), 'raised' if raised else 'returned',
                                                                  '' if envname == 'plain' else '|' + envname),
                          strip(case), {'what': what, 'detail': detail, 'raised': safe_repr(raised)[:200]})
        added = snap.added_modules()
        if added:
            ctx.count('modules_added_during_call_(not judged)', len(added))
        if diffs:
            snap.restore()
            sandbox._current_patches.clear()
            sandbox._current_stdout.clear()
        else:
            # probe: the next execution captures normally
            if kind == 'timeout':
                # (what an interrupted thread that is still unwinding does to the NEXT execution is C14's subject, under controlled
                # schedules; here the probe only asks whether the state left behind is usable, so it waits for that thread)
                import threading
                end = time.time() + 3
                while time.time() < end and any(t is not threading.main_thread() and t.is_alive() and type(t).__name__ == 'InterruptableThread'
                                                for t in threading.enumerate()):
                    time.sleep(0.01)
                if time.time() < end and measurements_left_running() > case.get('_measuring_before', 0):
                    # (no student thread is alive any more, and a measurement that was started for it has not been ended: it
                    # would be resumed - in this thread - when a later one ends)
                    ctx.violation('C05|not-restored|coverage-measurement-left-running|tracer=%s|after-the-interrupted-program-ended%s'
                                  % (tracer, '' if envname == 'plain' else '|' + envname), strip(case),
                                  "%d measurement(s) on coverage.py's stack" % measurements_left_running())
                    snap.restore()
            try:
                sbx.clear_output()
                sandbox.allowed_time = 20       # (the probe is not about time limits: setting a measurement up can take longer than the cell's)
                sbx.run(code='print("probe-text")')
                got = sbx.get_raw_output()
                ctx.count('probe_runs')
                if got != 'probe-text\n':
                    ctx.violation('C05|probe-output-wrong|after-%s' % termination_class(kind, mode, raised), strip(case),
                                  'probe run captured %r' % got[:200])
                d2 = snap.diff(sandbox)
                for what, detail in d2:
                    ctx.violation('C05|not-restored|%s|after-probe%s' % (what if what != 'sys.gettrace' else 'sys.gettrace|tracer=' + tracer,
                                                                        '' if envname == 'plain' else '|' + envname), strip(case), detail)
            except BaseException as e:
                ctx.violation('C05|probe-raised|%s' % type(e).__name__, strip(case), traceback.format_exc()[-800:])
        return
    # ---------------------------------------------------------------- C04 projection -------------------
    if envname.startswith('failpoint'):
        return
    if kind == 'timeout':
        ctx.count('outside_this_property_time_limit_(C14)')
        return
    if kind in ('base',):
        ctx.count('outside_quantifier_base_exception')
        # (whether such an exception is handed on to the caller or recorded like the others is not fixed by the statement; that the
        # student's code failed must not simply vanish, though)
        if raised is None and unwrap(sbx.get_exception()) is None and not runtime_feedbacks(report)[n_rt_before:]:
            ctx.violation('C04|failure-vanished|base-exception|%s' % key_tail, strip(case),
                          'the call returned normally, get_exception() is None and no runtime feedback was attached; reference: %s' % safe_repr(ref.exc))
        if diffs:
            snap.restore(); sandbox._current_patches.clear(); sandbox._current_stdout.clear()
        return
    if diffs:
        snap.restore(); sandbox._current_patches.clear(); sandbox._current_stdout.clear()
    if raised is not None:
        ctx.violation('C04|escaped|%s|%s|%s' % (type(raised).__name__, site_of(raised), mode_family(mode)), strip(case),
                      safe_text(raised) + ' @ ' + site_of(raised))
        return
    exc = unwrap(sbx.get_exception())
    new_rt = runtime_feedbacks(report)[n_rt_before:]
    want_cls = ref.cls
    if ref.exc is None and kind != 'blocked':     # (an 'ok' body can still fail in one entry: printing after the helper closed stdout)
        if exc is not None:
            ctx.violation('C04|spurious-exception|%s' % mode_family(mode), strip(case), safe_repr(exc)[:300])
        if new_rt:
            ctx.violation('C04|spurious-runtime-feedback|%s' % mode_family(mode), strip(case), [f.label for f in new_rt])
        ctx.count('normal_terminations')
        return
    ctx.count('failing_terminations')
    if kind == 'blocked':
        want_cls = case.get('cls')
        if want_cls is None and exc is not None:
            want_cls = class_name(exc)
        ctx.count('blocked_feature_cases')
    if exc is None:
        ctx.violation('C04|exception-not-recorded|%s|%s' % (mode_family(mode), key_tail), strip(case), 'get_exception() is None, reference: %s' % safe_repr(ref.exc))
    else:
        got_cls = class_name(exc)
        if isinstance(exc, BaseException) is False:
            ctx.violation('C04|exception-not-an-exception|%s' % mode_family(mode), strip(case), safe_repr(exc)[:200])
        elif want_cls is not None and got_cls != want_cls:
            ctx.violation('C04|wrong-exception-class|%s|%s' % (mode_family(mode), key_tail), strip(case),
                          'reference %s, sandbox %s: %s' % (want_cls, got_cls, safe_repr(exc)))
    if len(new_rt) != 1:
        ctx.violation('C04|runtime-feedback-count-%d|%s|%s' % (len(new_rt), mode_family(mode), key_tail), strip(case),
                      [(f.label, f.title) for f in new_rt])
    else:
        fb = new_rt[0]
        name = None
        try:
            name = fb.fields.get('exception_name')
        except Exception:
            pass
        if want_cls is not None and name != want_cls:
            ctx.violation('C04|feedback-names-other-class|%s|%s' % (mode_family(mode), key_tail), strip(case),
                          'feedback exception_name=%r title=%r, reference %s' % (name, fb.title, want_cls))
        want_line = ref.line
        shift = case.get('line_shift', 0)       # lines of the whole file before the section that is the student's file here
        if want_line is not None and ref.innermost_file == 'answer.py':
            want_line += shift
        if kind == 'blocked':
            want_line = None        # raised inside pedal's replacement, not on a student line
            ctx.count('line_not_judged_blocked_feature')
        elif mode.startswith('RecursionError'):
            # where the limit is hit depends on the stack depth at entry: the ground truth is the recorded
            # exception's own traceback (judged only when its innermost frame is a student line)
            want_line = None
            tb = traceback.extract_tb(exc.__traceback__) if isinstance(exc, BaseException) else []
            if tb and tb[-1].filename in STUDENT_FILES:
                want_line = tb[-1].lineno + (shift if tb[-1].filename == 'answer.py' else 0)
        if kind == 'compile' and entry in ('run', 'call', 'evaluate') and isinstance(ref.exc, SyntaxError) \
                and ref.exc.filename in STUDENT_FILES and ref.exc.lineno is not None:
            # the student's own file does not compile: the failure is on the line the SyntaxError names - a location
            # that is a line number of one of pedal's own files is not "the student's own line"
            got_line = getattr(fb.location, 'line', None)
            ctx.count('compile_failure_lines_compared')
            n_student_lines = files['answer.py'].count('\n') + 1 + shift
            named = ref.exc.lineno + (shift if ref.exc.filename == 'answer.py' else 0)
            if got_line is not None and got_line != named:
                ctx.violation('C04|compile-failure-located-%s|%s' % ('outside-the-student-file' if got_line > n_student_lines else 'on-another-line', key_tail), strip(case),
                              'SyntaxError names %s line %r (of the whole file: %r); the file has %d lines; feedback line %r' % (
                                  ref.exc.filename, ref.exc.lineno, named, n_student_lines, got_line))
        if want_line is not None:
            got_line = getattr(fb.location, 'line', None)
            ctx.count('lines_compared')
            ref.line = want_line
            if got_line != ref.line:
                ctx.violation('C04|wrong-line|%s|%s' % (mode_family(mode), key_tail), strip(case),
                              'reference student line %r (%s), feedback line %r' % (ref.line, ref.innermost_file, got_line))
        try:
            msg = fb.message
            if not isinstance(msg, str) or (want_cls and want_cls not in msg and want_cls not in str(fb.title)):
                ctx.count('message_without_class_name_(not judged)')
        except Exception as e:
            ctx.violation('C04|feedback-message-raises|%s' % mode_family(mode), strip(case), repr(e)[:300])
    if ctx.evaluations % 151 == 0:
        ctx.sample({'case': strip(case), 'reference': [ref.cls, ref.line], 'sandbox_exception': safe_repr(exc)[:120],
                    'runtime_feedbacks': [(f.label, getattr(f.location, 'line', None)) for f in new_rt]})


def strip(case):
    return {k: v for k, v in case.items() if k in ('mode', 'body', 'kind', 'cls', 'entry', 'tracer', 'threaded', 'position', 'env')}


def mode_family(mode):
    """mechanism-level name of a termination mode (keys must not depend on the sampled variant)"""
    if mode.startswith('exit-'):
        return 'SystemExit'
    if mode.startswith('compile-'):
        return 'compile-failure'
    if mode.startswith('blocked-'):
        return 'blocked-feature'
    if mode.startswith('RecursionError'):
        return 'RecursionError'
    if mode.startswith('user-exception'):
        return mode
    if mode.startswith('ok-'):
        return 'normal-end'
    if mode.startswith(('SyntaxError-raised', 'IndentationError-raised')):
        return 'raised-SyntaxError-object'
    if mode.startswith('exception-'):
        return 'builtin-exception-in-construct'
    return 'builtin-exception'


def termination_class(kind, mode, raised):
    if kind == 'base':
        return 'BaseException-subclass'
    if kind == 'ok':
        return 'normal-end'
    if kind == 'compile':
        return 'compile-failure'
    if kind == 'timeout':
        return 'time-limit'
    if kind == 'blocked':
        return 'blocked-feature'
    if mode.startswith('exit-'):
        return 'SystemExit'
    if mode.startswith('user-exception'):
        return mode
    return 'Exception'


def case_matrix(ctx, which):
    """All (mode, entry, tracer, threaded, position) cells; quick samples, thorough enumerates."""
    modes = all_modes()
    cells = []
    for m in modes:
        for entry in ENTRIES:
            if m['kind'] == 'compile' and entry in ('call', 'evaluate'):
                continue
            for tracer in TRACERS:
                for threaded in (False, True):
                    if m['kind'] == 'timeout' and (not threaded or which != 'C05'):
                        continue        # only a threaded execution has a time limit (and only C05 looks at what is left behind)
                    for pos in ('first', 'after-failure', 'after-ok', 'after-clear_context', 'the-same-execution-before'):
                        for env in (ENVS if which == "C05" else ENVS[:14]):
                            if env.startswith('failpoint') and m['kind'] in ('ok',):
                                continue
                            c = dict(m)
                            c.update(entry=entry, tracer=tracer, threaded=threaded, position=pos, env=env)
                            cells.append(c)
                        if which == 'C05' and threaded and entry == 'import':
                            # the sandbox is set to run things under a time limit, but this execution is asked for without one:
                            # only the import of the other file (which fails, or never ends) gets a thread and a limit
                            c = dict(m)
                            c.update(entry=entry, tracer=tracer, threaded=threaded, position=pos, env='only-the-import-is-threaded')
                            cells.append(c)
                            if pos == 'first' and tracer != 'none':
                                # ... while the grader runs under a trace function of her own (a debugger, a coverage measurement)
                                c = dict(c)
                                c['env'] = 'only-the-import-is-threaded+outer-trace'
                                cells.append(c)
    return cells


def private_cwd():
    """the coverage tracer writes a .coverage data file into the cwd: give every worker its own"""
    import atexit, os, shutil, tempfile
    d = tempfile.mkdtemp(prefix='verif-cwd-')
    os.chdir(d)
    atexit.register(shutil.rmtree, d, True)
    return d


def run(ctx, which):
    d = private_cwd()
    try:
        _run(ctx, which)
    finally:
        import os, shutil
        os.chdir('/')
        shutil.rmtree(d, ignore_errors=True)


def _run(ctx, which):
    cells = case_matrix(ctx, which)
    rng = ctx.rng

    def plain(c):
        if c['env'] == 'only-the-import-is-threaded' and c['kind'] in ('timeout', 'base') and c['position'] == 'first':
            return True                 # (every tracer style: the trace function is per thread, and two threads are involved)
        if c['env'] in ('in-a-later-section', 'after-the-sections-were-stopped') and c['mode'].startswith('SyntaxError-raised') and c['tracer'] == 'none' \
                and not c['threaded'] and c['position'] == 'first' and c['entry'] in ('run', 'call'):
            return True                 # (errors that name a line themselves, where the file's lines are shifted: always, not by the luck of the sample)
        if c['env'] == 'only-the-import-is-threaded+outer-trace' and c['mode'] in ('ok-print', 'ok-silent', 'ZeroDivisionError', 'timeout-busy-loop', 'base-KeyboardInterrupt', 'exit-sys-exit'):
            return True
        if c['kind'] == 'timeout':      # time limits exist only in threaded executions: every history position, plain configuration
            return c['tracer'] == 'none' and c['env'] == 'plain'
        return c['tracer'] == 'none' and not c['threaded'] and c['position'] == 'first' and c['env'] == 'plain'
    for m in all_modes():
        if m['mode'] in BLOCKED_BUILTIN:
            for entry in ('run', 'call', 'evaluate', 'run-code'):
                for tracer in ('none', 'native'):
                    c = dict(m)
                    c.update(entry=entry, tracer=tracer, threaded=False, position='after-the-builtin-was-allowed-for-an-earlier-execution', env='plain')
                    cells.append(c)
    base = [c for c in cells if plain(c) or c['position'] == 'after-the-builtin-was-allowed-for-an-earlier-execution'][ctx.shard::ctx.nshards]
    rest = [c for c in cells if not plain(c) and c['position'] != 'after-the-builtin-was-allowed-for-an-earlier-execution'][ctx.shard::ctx.nshards]
    if ctx.quick():
        # every (mode, entry) pair in the plain configuration + a random sample of the other configurations
        rng.shuffle(rest)
        rest = rest[:max(200, 4 * len(base))]
    mine = base + rest
    ctx.count('cells_in_matrix', len(cells) if ctx.shard == 0 else 0)
    for c in mine:
        if ctx.time_left() < 3:
            ctx.count('cells_not_reached_budget')
            break
        execute_case(ctx, which, c)
    if which == 'C05':
        for case in unwinding_cells()[ctx.shard::ctx.nshards]:
            run_unwinding(ctx, case)
        for case in own_object_cells()[ctx.shard::ctx.nshards]:
            run_own_object(ctx, case)
    if ctx.shard == 0 and which == 'C05':
        sequences(ctx, which)


def sequences(ctx, which, n=None):
    """C05: histories of 2-6 executions in ONE sandbox, state compared around each."""
    from pedal.sandbox import commands as sbx
    rng = ctx.rng
    modes = [m for m in all_modes() if m['kind'] != 'timeout']      # these steps run unthreaded: no time limit
    n = n or ctx.pick(40, 400)
    for i in range(n):
        if ctx.time_left() < 3:
            break
        k = rng.randint(2, 6)
        seq = [rng.choice(modes) for _ in range(k)]
        tracer = rng.choice(TRACERS)
        if tracer != 'none':
            # (under a trace function the program that lowers the recursion limit to its own depth leaves no room for the next line's
            # callback - see _execute_case)
            seq = [m for m in seq if m['mode'] != 'exception-after-lowering-the-recursion-limit'] or [modes[0]]
        body = PRELUDE + 'x = 5\n'
        try:
            sandbox, report = new_sandbox({'answer.py': body}, tracer, False)
        except ImportError:
            continue
        names = []
        for m in seq:
            names.append(m['mode'])
            snap = Snapshot(sandbox)
            raised = None
            try:
                sbx.run(code=m['body'], inputs=['1'])
            except BaseException as e:
                raised = e
            diffs = snap.diff(sandbox)
            ctx.count('state_comparisons')
            ctx.count('sequence_steps')
            for what, detail in diffs:
                if what == 'sys.gettrace' and tracer == 'none' and m['mode'] == 'ok-sets-a-trace-function':
                    continue        # (no tracer: pedal does not touch the trace function, and the statement does not ask it to)
                ctx.violation('C05|not-restored|%s|after-%s|%s' % (what, termination_class(m['kind'], m['mode'], raised),
                                                                   'raised' if raised else 'returned'),
                              {'sequence': names[:], 'tracer': tracer}, {'what': what, 'detail': detail})
            if diffs:
                snap.restore(); sandbox._current_patches.clear(); sandbox._current_stdout.clear()
                break
        ctx.case('seq:' + '>'.join(names) + ':' + tracer)


# ---------------------------------------------------------------------------------------------------------------------
# C05: the next grading starts while the program that ran out of time is still unwinding
# ---------------------------------------------------------------------------------------------------------------------
# The program's clean-up (a finally block) goes on until the harness lets it end - by setting the program's own global through
# the sandbox the harness still holds - so "still unwinding while the next execution runs" is a fact of the run, not of timing.
UNWINDING = ("release = False\n"
             "def spin():\n    try:\n        while True:\n            pass\n    finally:\n        while not release:\n            pass\n")
UNWINDING_NEXT = ['new-sandbox', 'new-sandbox-threaded', 'same-sandbox']


def unwinding_cells():
    return [{'scenario': 'unwinding', 'tracer': a, 'next_tracer': b, 'entry': e, 'next': n}
            for a in TRACERS for b in TRACERS for e in ('run', 'call') for n in UNWINDING_NEXT
            if not (n == 'same-sandbox' and a != b)]


def run_unwinding(ctx, case):
    import threading
    from pedal.sandbox import commands as sbx
    a, b, entry, nxt = case['tracer'], case['next_tracer'], case['entry'], case['next']
    tail = 'first=%s/%s|next=%s/%s' % (a, entry, b, nxt)
    try:
        sandbox, report = new_sandbox({'answer.py': UNWINDING + ('spin()\n' if entry == 'run' else '')}, a, True, allowed_time=0.15)
        if entry == 'call':
            sbx.run()
            if sbx.get_exception() is not None:
                ctx.count('setup_run_failed')
                return
    except ImportError:
        ctx.count('tracer_unavailable')
        return

    def judge(snap, box, stage):
        diffs = snap.diff(box)
        ctx.count('state_comparisons')
        for what, detail in diffs:
            ctx.violation('C05|not-restored|%s|%s|%s' % (what, stage, tail), dict(case), {'what': what, 'detail': detail})
        if diffs:
            snap.restore()
            box._current_patches.clear()
            box._current_stdout.clear()
        return not diffs

    def probe(box, stage, text):
        raised = None
        try:
            sbx.clear_output()
            sbx.run(code='print(%r)' % text)
            got = sbx.get_raw_output()
        except BaseException as e:
            raised, got = e, None
        ctx.count('probe_runs')
        if raised is not None:
            ctx.violation('C05|probe-raised|%s|%s|%s' % (type(raised).__name__, stage, tail), dict(case), safe_repr(raised)[:300])
        elif got != text + '\n':
            ctx.violation('C05|probe-output-wrong|%s|%s' % (stage, tail), dict(case), 'probe run captured %r' % (got or '')[:200])

    snap = Snapshot(sandbox)
    try:
        sbx.run() if entry == 'run' else sbx.call('spin')
    except BaseException as e:
        ctx.violation('C05|time-limit-raised|%s|%s' % (type(e).__name__, tail), dict(case), safe_repr(e)[:300])
    ctx.count('executions')
    ok = judge(snap, sandbox, 'after-time-limit')
    zombies = [t for t in threading.enumerate() if type(t).__name__ == 'InterruptableThread' and t.is_alive()]
    if not zombies or type(unwrap(sbx.get_exception())).__name__ != 'TimeoutError':
        ctx.undecided('the program was not interrupted while it ran (%s)' % tail)
        sandbox.data['release'] = True
        return
    try:
        if ok:
            # ---- the next grading begins at once
            if nxt == 'same-sandbox':
                box = sandbox
                box.allowed_time = 20
            else:
                box, _ = new_sandbox({'answer.py': "print('next')\n"}, b, nxt == 'new-sandbox-threaded', allowed_time=20)
            snap2 = Snapshot(box)
            probe(box, 'while-the-interrupted-program-unwinds', 'next one')
            ok = judge(snap2, box, 'after-next-execution-while-the-interrupted-program-unwinds')
            still = all(t.is_alive() for t in zombies)
    finally:
        sandbox.data['release'] = True
        for t in zombies:
            t.join(8)
    if any(t.is_alive() for t in zombies):
        ctx.undecided('the interrupted program did not end after it was released (%s)' % tail)
        return
    if ok:
        if not still:
            ctx.undecided('the interrupted program ended by itself before the next execution did (%s)' % tail)
            return
        ctx.count('next_executions_overlapping_an_unwinding_program')
        ok = judge(snap2, box, 'after-the-interrupted-program-ended')
    if ok:
        probe(box, 'after-the-interrupted-program-ended', 'later one')
        judge(snap2, box, 'after-a-later-execution')
    ctx.seen('tracers', a)
    ctx.case('unwinding/' + tail)


# ---------------------------------------------------------------------------------------------------------------------
# C05: objects of the student's own classes handed back to the student's functions as arguments of call()
# ---------------------------------------------------------------------------------------------------------------------
OWN_OBJECTS = '''import sys, io, time

class Quiet:
    """ answers unknown attributes after silencing the console and the clock (it never puts them back) """
    def __init__(self):
        self.known = {'volume': 3}
    def __getattr__(self, name):
        sys.stdout = io.StringIO()
        time.sleep = len
        if name in self.__dict__.get('known', {}):
            return self.__dict__['known'][name]
        raise AttributeError(name)

class Plain:
    def __init__(self):
        self.volume = 4

def make_quiet():
    return Quiet()

def use(thing):
    return getattr(thing, 'volume', 0) + getattr(thing, 'balance', 1)

quiet = Quiet()
plain = Plain()
'''


def own_object_cells():
    return [{'scenario': 'own-object-as-argument', 'tracer': t, 'which': w, 'threaded': th}
            for t in TRACERS for w in ('from-the-namespace', 'from-an-unproxied-result', 'plain-object') for th in (False, True)]


def run_own_object(ctx, case):
    try:
        sandbox, report = new_sandbox({'answer.py': OWN_OBJECTS}, case['tracer'], case['threaded'])
    except ImportError:
        ctx.count('tracer_unavailable')
        return
    sbx = commands_in_use()
    sbx.run()
    if sbx.get_exception() is not None:
        ctx.count('setup_run_failed')
        return
    tail = '%s|tracer=%s|%s' % (case['which'], case['tracer'], 'threaded' if case['threaded'] else 'direct')
    snap0 = Snapshot(sandbox)
    if case['which'] == 'from-the-namespace':
        thing = sandbox.data['quiet']
    elif case['which'] == 'plain-object':
        thing = sandbox.data['plain']
    else:
        # the documented switch for graders that want the bare values back
        sandbox.result_proxy_class = None
        thing = sbx.call('make_quiet')
    for what, detail in snap0.diff(sandbox):
        ctx.violation('C05|not-restored|%s|after-call-returning-a-student-object|%s' % (what, tail), dict(case), {'what': what, 'detail': detail})
    snap = Snapshot(sandbox)
    raised = None
    try:
        sbx.call('use', thing)
    except BaseException as e:
        raised = e
    ctx.count('executions')
    ctx.count('state_comparisons')
    ctx.count('calls_with_a_student_object_as_argument')
    diffs = snap.diff(sandbox)
    for what, detail in diffs:
        ctx.violation('C05|not-restored|%s|after-call-with-a-student-object-as-argument|%s' % (what, tail), dict(case), {'what': what, 'detail': detail, 'raised': safe_repr(raised)[:200]})
    if diffs or snap0.diff(sandbox):
        snap0.restore()
        sandbox._current_patches.clear()
        sandbox._current_stdout.clear()
    ctx.case('own-object/' + tail)


def replay(ctx, which, case):
    if case.get('scenario') == 'unwinding':
        return run_unwinding(ctx, case)
    if case.get('scenario') == 'own-object-as-argument':
        return run_own_object(ctx, case)
    if 'sequence' in case:
        from pedal.sandbox import commands as sbx
        by = {m['mode']: m for m in all_modes()}
        sandbox, report = new_sandbox({'answer.py': PRELUDE + 'x = 5\n'}, case.get('tracer', 'none'), False)
        names = []
        for name in case['sequence']:
            m = by[name]
            names.append(name)
            snap = Snapshot(sandbox)
            raised = None
            try:
                sbx.run(code=m['body'], inputs=['1'])
            except BaseException as e:
                raised = e
            for what, detail in snap.diff(sandbox):
                if what == 'sys.gettrace' and case.get('tracer', 'none') == 'none' and m['mode'] == 'ok-sets-a-trace-function':
                    continue
                ctx.violation('C05|not-restored|%s|after-%s|%s' % (what, termination_class(m['kind'], m['mode'], raised),
                                                                   'raised' if raised else 'returned'),
                              {'sequence': names[:], 'tracer': case.get('tracer', 'none')}, {'what': what, 'detail': detail})
            ctx.case('seq')
        return
    execute_case(ctx, which, case)
