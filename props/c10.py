"""C10 - every CAIT match is a genuine embedding of the pattern in the student's code."""
import ast
import re
import traceback

from props import cait_common as cc

ID = 'C10'
LEVEL = 'exploration'
TECHNIQUE = 'offline witness checker over every AstMap returned by the real find_matches: kind/content equality of paired nodes, parent/child and sibling-order preservation, single binding per _name_ placeholder, __expr__ bound to the node at its position, match_root; negative oracle for patterns whose concrete content occurs nowhere'
LEVEL_TEXT = ('Held on the matches observed: (pattern, program) pairs come from patterns derived from the program (so matches exist and '
              'are often ambiguous), the same patterns with one concrete token changed, two sibling statements swapped, one placeholder '
              'forced onto two different names, and patterns cut from other programs; every returned match is checked as a witness: each '
              'non-wildcard pattern node is paired with a student node of the same class with equal identifier/literal content (type-'
              'aware), each paired child lies under the partner of its parent and list siblings keep their order (operands of + and * '
              'may swap), no two pattern siblings share a student node, every concrete pattern node has a partner, each _name_ is bound '
              'to one identifier everywhere, each __expr__ to exactly the node paired at its position, and match_root is the partner of '
              'the pattern root. A pattern containing an identifier or literal that occurs nowhere in the program must return []. The same '
              'pattern asked again inside what it matched (nested constructs) is witness-checked too; programs are presented in seven ways.')
LEVEL_NOTE = ('Documented flexibilities are not violations and are counted: the pattern\'s Module root and Expr statement wrappers '
              'may pair with any body-holding node / statement, `pass` is a statement wildcard, _function_() placeholders use the '
              'function table.')
RULE = ('Pair = (program, pattern, perturbation). Non-trivial: a pair returning >= 1 match with >= 3 paired nodes, or a perturbed / '
        'foreign pattern sharing at least one node kind with the program. Distinct = distinct (pattern, program).')
ASSUMPTIONS = ['the AstMap fields mappings/symbol_table/exp_table/match_root are the witness the matcher claims']
SHARDS = {'quick': 16, 'thorough': 48}
BUDGET = {'quick': 45, 'thorough': 1500}
MIN_NONTRIVIAL = {'quick': 1500, 'thorough': 60000}
REQUIRED_COUNTERS = {'quick': ['matches_witness_checked', 'negative_patterns_checked', 'perturbed_patterns_checked'],
                     'thorough': ['matches_witness_checked', 'negative_patterns_checked', 'perturbed_patterns_checked']}


def student_root():
    from pedal.cait.cait_api import parse_program
    return parse_program(**cc.kw()).astNode


def check(ctx, src, pattern, kind, must_be_empty=False):
    from pedal.cait.cait_api import find_matches
    case = {'src': src if len(src) < 3500 else src[:3500], 'pattern': pattern, 'perturbation': kind, 'presented': cc.PRESENTED['how']}
    try:
        ast.parse(pattern)
    except SyntaxError:
        return None
    try:
        matches = find_matches(pattern, **cc.kw())
    except Exception as e:
        ctx.violation('C10|find_matches-raised|%s|%s' % (type(e).__name__, site_of(e)), case, traceback.format_exc()[-500:])
        return None
    ctx.count('patterns_checked')
    if kind != 'derived':
        ctx.count('perturbed_patterns_checked')
    root = student_root()
    nt = None
    if must_be_empty:
        ctx.count('negative_patterns_checked')
        nt = 'NEG:' + pattern + '@@' + src[:1200]
        if matches:
            ctx.violation('C10|match-for-pattern-with-absent-content|%s' % kind, case,
                          '%d matches although %s occurs nowhere in the program' % (len(matches), kind))
    for m in matches[:40]:
        problems = []
        try:
            cc.check_witness(m, pattern, root, problems)
        except Exception as e:
            ctx.note('witness checker error: %r on %r' % (e, pattern[:200]))
            ctx.inconclusive('witness checker crashed: %s' % type(e).__name__)
            return None
        ctx.count('matches_witness_checked')
        if len(m.mappings) >= 3:
            nt = 'M:' + pattern + '@@' + src[:1200]
        for pk, detail in problems[:3]:
            ctx.violation('C10|not-an-embedding|%s|%s' % (pk, kind), case, detail)
    ctx.case(nt)
    if matches and kind == 'derived' and ctx.evaluations % 5 == 0 and pattern.strip() not in ('pass', '___'):      # (a bare wildcard matches the empty module too)
        # the same question asked about a program that is given explicitly and is EMPTY (e.g. the part before the first marker of
        # a file that starts with a marker): nothing of the pattern occurs in it
        for empty in ('', '\n'):
            try:
                stray = find_matches(pattern, empty, **cc.kw())
            except Exception as e:
                ctx.violation('C10|find_matches-raised|%s|%s|explicit-empty-program' % (type(e).__name__, site_of(e)), dict(case, explicit_code=empty), traceback.format_exc()[-400:])
                break
            ctx.count('questions_about_an_explicit_empty_program')
            if stray:
                ctx.violation('C10|match-for-pattern-with-absent-content|explicit-empty-program', dict(case, explicit_code=empty),
                              '%d matches in an empty program (the submission\'s own code was searched instead)' % len(stray))
                break
    if matches and ctx.evaluations % 211 == 0:
        m = matches[0]
        ctx.sample({'pattern': pattern, 'perturbation': kind, 'matches': len(matches),
                    'first_match_pairs': [[type(k.astNode).__name__, type(v.astNode).__name__, getattr(v.astNode, 'lineno', None)] for k, v in list(m.mappings.items())[:8]],
                    'symbols': {k: sorted({s.id for s in v}) for k, v in m.symbol_table.items()}})
    return matches


def site_of(exc):
    tb = traceback.extract_tb(exc.__traceback__)
    for fr in reversed(tb):
        if '/pedal/' in fr.filename:
            return '%s:%s' % (fr.filename.split('/pedal/')[-1], fr.name)
    return 'outside-pedal'


# ------------------------------------------------------------------------------------------------------------------
# perturbations
# ------------------------------------------------------------------------------------------------------------------

def program_tokens(tree):
    idents, consts = set(), set()
    for n in ast.walk(tree):
        if isinstance(n, ast.Name):
            idents.add(n.id)
        elif isinstance(n, ast.Attribute):
            idents.add(n.attr)
        elif isinstance(n, (ast.FunctionDef, ast.ClassDef)):
            idents.add(n.name)
        elif isinstance(n, ast.arg):
            idents.add(n.arg)
        elif isinstance(n, ast.keyword) and n.arg:
            idents.add(n.arg)
        elif isinstance(n, ast.Constant):
            consts.add((type(n.value).__name__, repr(n.value)))
    return idents, consts


def perturb_absent_identifier(rng, frag):
    names = [n for n in ast.walk(frag) if isinstance(n, ast.Name) and not cc.is_placeholder_node(n)]
    if not names:
        return None
    n = rng.choice(names)
    n.id = 'zq_absent_name'
    return 'absent-identifier'


def perturb_absent_literal(rng, frag):
    consts = [n for n in ast.walk(frag) if isinstance(n, ast.Constant) and isinstance(n.value, (int, float, str)) and not isinstance(n.value, bool)]
    if not consts:
        return None
    n = rng.choice(consts)
    n.value = 987654321 if isinstance(n.value, (int, float)) else 'zq absent literal'
    return 'absent-literal'


def perturb_literal_type(rng, frag, program_consts):
    """same value, other type: must not match unless the program really contains that literal"""
    consts = [n for n in ast.walk(frag) if isinstance(n, ast.Constant) and type(n.value) is int and n.value in (0, 1)]
    consts += [n for n in ast.walk(frag) if isinstance(n, ast.Constant) and type(n.value) is int]
    if not consts:
        return None
    n = consts[0]
    new = float(n.value) if n.value not in (0, 1) or rng.random() < 0.5 else bool(n.value)
    if (type(new).__name__, repr(new)) in program_consts:
        return None
    n.value = new
    return 'literal-of-other-type'


def perturb_look_alike_literal(rng, frag, program_consts):
    """a number replaced by the string with the same text (or the reverse)"""
    cands = [n for n in ast.walk(frag) if isinstance(n, ast.Constant) and (type(n.value) in (int, float) or (type(n.value) is str and re.fullmatch(r'-?\d+(\.\d+)?', n.value)))]
    if not cands:
        return None
    n = rng.choice(cands)
    if isinstance(n.value, str):
        new = float(n.value) if '.' in n.value else int(n.value)
    else:
        new = str(n.value)
    if (type(new).__name__, repr(new)) in program_consts:
        return None
    n.value = new
    return 'literal-look-alike-of-other-kind'


def expression_patterns(rng, tree, k=3):
    """expression-level patterns: the (trimmed) pattern root is an expression of the program, optionally with placeholders"""
    exprs = [n for n in ast.walk(tree) if isinstance(n, (ast.BinOp, ast.Compare, ast.BoolOp, ast.Call, ast.Subscript)) and len(ast.unparse(n)) < 120]
    out = []
    for n in rng.sample(exprs, min(k, len(exprs))):
        frag = ast.Module(body=[ast.Expr(value=cc.clone(n))], type_ignores=[])
        out.append(frag)
    return out


def perturb_swap_siblings(rng, frag):
    lists = []
    for node in ast.walk(frag):
        for f in cc.BODY_FIELDS:
            seq = getattr(node, f, None)
            if isinstance(seq, list) and len(seq) >= 2 and all(isinstance(s, ast.stmt) for s in seq):
                lists.append(seq)
    if not lists:
        return None
    seq = rng.choice(lists)
    i = rng.randrange(len(seq) - 1)
    if ast.dump(seq[i]) == ast.dump(seq[i + 1]):
        return None
    seq[i], seq[i + 1] = seq[i + 1], seq[i]
    return 'siblings-swapped'


def perturb_conflicting_placeholder(rng, frag):
    """one _name_ placeholder put on two different identifiers"""
    names = {}
    for n in ast.walk(frag):
        if isinstance(n, ast.Name) and not cc.is_placeholder_node(n) and not n.id.startswith('_'):
            names.setdefault(n.id, []).append(n)
    callee = {n.func.id for n in ast.walk(frag) if isinstance(n, ast.Call) and isinstance(n.func, ast.Name)}
    keys = [k for k in names if k not in callee]
    if len(keys) < 2:
        return None
    a, b = rng.sample(keys, 2)
    for n in names[a] + names[b]:
        n.id = '_same_'
    return 'one-placeholder-for-two-identifiers'


def perturb_callee_and_argument(rng, frag):
    """one _name_ placeholder on the callee of a call and on a (different) variable among its arguments"""
    calls = [n for n in ast.walk(frag) if isinstance(n, ast.Call) and isinstance(n.func, ast.Name) and not n.func.id.startswith('_')
             and any(isinstance(a, ast.Name) and a.id != n.func.id and not a.id.startswith('_') for a in n.args)]
    if not calls:
        return None
    c = rng.choice(calls)
    arg = rng.choice([a for a in c.args if isinstance(a, ast.Name) and a.id != c.func.id and not a.id.startswith('_')])
    old_f, old_a = c.func.id, arg.id
    for n in ast.walk(frag):
        if isinstance(n, ast.Name) and n.id in (old_f, old_a):
            n.id = '_same_'
    return 'one-placeholder-for-callee-and-argument'


def perturb_other_callee_under_operator(rng, frag, idents):
    """the callee of a call that is an operand of + or * replaced by another function name of the program"""
    spots = []
    for n in ast.walk(frag):
        if isinstance(n, ast.BinOp) and isinstance(n.op, (ast.Add, ast.Mult)):
            for side in (n.left, n.right):
                if isinstance(side, ast.Call) and isinstance(side.func, ast.Name):
                    spots.append(side)
    if not spots:
        return None
    c = rng.choice(spots)
    c.func.id = 'absent_function_zq'
    return 'absent-identifier'


def perturb_ellipsis(rng, frag, program_consts):
    """a literal of the fragment replaced by `...` - which is a literal like any other, and not in the program"""
    if any(c[0] == 'ellipsis' for c in program_consts):
        return None
    consts = [n for n in ast.walk(frag) if isinstance(n, ast.Constant) and n.value is not Ellipsis and not isinstance(n.value, str)]
    consts += [n for n in ast.walk(frag) if isinstance(n, ast.Constant) and isinstance(n.value, str) and not cc.is_placeholder_text(n.value)] if hasattr(cc, 'is_placeholder_text') else []
    if not consts:
        return None
    rng.choice(consts).value = Ellipsis
    return 'literal-replaced-by-ellipsis'


def perturb_shift_call_under_operator(rng, frag):
    """g(a, b) as an operand of + or * becomes a(b): the callee is now what was the first argument"""
    spots = []
    for n in ast.walk(frag):
        if isinstance(n, ast.BinOp) and isinstance(n.op, (ast.Add, ast.Mult)):
            for side in (n.left, n.right):
                if isinstance(side, ast.Call) and isinstance(side.func, ast.Name) and len(side.args) >= 2 and isinstance(side.args[0], ast.Name) \
                        and side.args[0].id != side.func.id and not side.keywords:
                    spots.append(side)
    if not spots:
        return None
    c = rng.choice(spots)
    c.func = ast.Name(id=c.args[0].id, ctx=ast.Load())
    c.args = c.args[1:]
    return 'call-shifted-by-one-position-under-an-operator'


def sub_queries(ctx, rng, src, pattern, matches):
    """A sub-query on the subtree an __expr__ placeholder is bound to, with a sub-pattern that uses the same placeholder name
    again: every sub-match must be an embedding of the sub-pattern too (its __expr__ is what stands at that position)."""
    root = student_root()
    for m in matches[:3]:
        for ph, bound in list(m.exp_table.items())[:2]:
            node = getattr(bound, 'astNode', None)
            if not isinstance(node, ast.expr):
                continue
            inner = [n for n in ast.walk(node) if n is not node and isinstance(n, ast.expr) and not isinstance(n, (ast.Name, ast.Constant))
                     or (n is not node and isinstance(n, (ast.Name, ast.Constant)))]
            inner = [n for n in inner if isinstance(n, ast.expr) and not isinstance(getattr(n, 'ctx', None), ast.Store)]
            if not inner:
                continue
            target = rng.choice(inner)
            frag = cc.clone(node)
            # find the clone of `target` by position in the walk order
            order = [n for n in ast.walk(node)]
            corder = [n for n in ast.walk(frag)]
            try:
                twin = corder[[id(n) for n in order].index(id(target))]
            except ValueError:
                continue
            par = cc.parent_map(frag).get(id(twin))
            if par is None:
                continue
            holder, field, idx = par
            new = ast.Name(id=ph, ctx=ast.Load())
            if idx is None:
                setattr(holder, field, new)
            else:
                getattr(holder, field)[idx] = new
            try:
                sub_pattern = ast.unparse(ast.fix_missing_locations(ast.Expr(value=frag)))
                ast.parse(sub_pattern)
            except Exception:
                continue
            case = {'src': src[:3500], 'pattern': pattern, 'perturbation': 'sub-query', 'sub_pattern': sub_pattern, 'placeholder': ph, 'presented': cc.PRESENTED['how']}
            try:
                subs = m[ph].find_matches(sub_pattern)        # the documented idiom: the earlier match's bindings carry over
            except Exception as e:
                ctx.violation('C10|sub-query-raised|%s|%s' % (type(e).__name__, site_of(e)), case, traceback.format_exc()[-400:])
                continue
            ctx.count('sub_queries_checked')
            for sm in subs[:10]:
                problems = []
                try:
                    cc.check_witness(sm, sub_pattern, root, problems)
                except Exception as e:
                    ctx.note('witness checker error in sub-query: %r on %r' % (e, sub_pattern[:200]))
                    continue
                ctx.count('sub_matches_witness_checked')
                for pk, detail in problems[:3]:
                    ctx.violation('C10|not-an-embedding|%s|sub-query-reusing-the-placeholder' % pk, case, detail)
    # ---- the same sub-pattern, naming a _var_ placeholder of the outer pattern, asked under EVERY outer match: a sub-match continues
    # the match it was asked under, so it binds that placeholder to the identifier THAT match bound it to ------------------------------
    if len(matches) >= 2:
        m0 = matches[0]
        for ph, bound in list(m0.exp_table.items())[:2]:
            node = getattr(bound, 'astNode', None)
            if not isinstance(node, (ast.expr, ast.stmt)):
                continue
            rev = {}
            for vph, syms in m0.symbol_table.items():
                ids = {s_.id for s_ in syms}
                if len(ids) == 1:
                    rev[next(iter(ids))] = vph
            frag = cc.clone(node)
            used = set()
            for x in ast.walk(frag):
                if isinstance(x, ast.Name) and x.id in rev:
                    used.add(rev[x.id])
                    x.id = rev[x.id]
            if not used:
                continue
            try:
                wrapped = frag if isinstance(frag, ast.stmt) else ast.Expr(value=frag)
                sub_pattern = ast.unparse(ast.fix_missing_locations(wrapped))
                ast.parse(sub_pattern)
            except Exception:
                continue
            for m in matches[:6]:
                e = m.exp_table.get(ph)
                if e is None or getattr(e, 'astNode', None) is not node:
                    continue        # only outer matches that bind the placeholder to the very same student node
                case = {'src': src[:3500], 'pattern': pattern, 'perturbation': 'sub-query', 'sub_pattern': sub_pattern, 'placeholder': ph, 'presented': cc.PRESENTED['how']}
                try:
                    subs = m[ph].find_matches(sub_pattern)
                except Exception as ex:
                    ctx.violation('C10|sub-query-raised|%s|%s' % (type(ex).__name__, site_of(ex)), case, traceback.format_exc()[-400:])
                    continue
                ctx.count('sub_queries_under_several_outer_matches')
                for sm in subs[:10]:
                    for vph in used:
                        outer_ids = {s_.id for s_ in m.symbol_table.get(vph, [])}
                        inner_ids = {s_.id for s_ in sm.symbol_table.get(vph, [])}
                        if outer_ids and inner_ids and not inner_ids <= outer_ids:
                            ctx.violation('C10|not-an-embedding|sub-match-binds-a-placeholder-to-another-identifier-than-the-match-it-continues', case,
                                          '%s: the outer match bound it to %s, the sub-match to %s' % (vph, sorted(outer_ids), sorted(inner_ids)))


def commutative_conflicts(rng, tree, k=4):
    """+ and * are matched with their operands in either order, by a code path of their own: patterns whose root is such an
    operation of the program, with ONE placeholder put on a name of the left operand and on a different name of the right one"""
    out = []
    ops = [n for n in ast.walk(tree) if isinstance(n, ast.BinOp) and isinstance(n.op, (ast.Add, ast.Mult)) and len(ast.unparse(n)) < 160]
    rng.shuffle(ops)
    for n in ops:
        callee = {id(c.func) for c in ast.walk(n) if isinstance(c, ast.Call)}
        left = sorted({x.id for x in ast.walk(n.left) if isinstance(x, ast.Name) and id(x) not in callee and not x.id.startswith('_')})
        right = sorted({x.id for x in ast.walk(n.right) if isinstance(x, ast.Name) and id(x) not in callee and not x.id.startswith('_')})
        pairs = [(a, b) for a in left for b in right if a != b]
        if not pairs:
            continue
        a, b = rng.choice(pairs)
        frag = cc.clone(n)
        fcallee = {id(c.func) for c in ast.walk(frag) if isinstance(c, ast.Call)}
        for x in ast.walk(frag):
            if isinstance(x, ast.Name) and x.id in (a, b) and id(x) not in fcallee:
                x.id = '_same_'
        out.append(ast.Module(body=[ast.Expr(value=frag)], type_ignores=[]))
        if len(out) >= k:
            break
    return out


def perturb_move_to_another_field(rng, frag):
    """a subtree is moved from one optional field of its parent to another one that is empty (the lower bound of a slice becomes
    its upper bound, the test of an assert its message...): the pattern no longer describes the program"""
    cands = []
    for n in ast.walk(frag):
        if isinstance(n, ast.Slice):
            for a, b in (('lower', 'upper'), ('upper', 'lower'), ('lower', 'step'), ('upper', 'step')):
                if getattr(n, a) is not None and getattr(n, b) is None:
                    cands.append((n, a, b))
        elif isinstance(n, ast.Call) and len(n.args) == 1 and not n.keywords and isinstance(n.args[0], ast.BinOp):
            cands.append((n, 'args', 'keywords'))
    if not cands:
        return None
    n, a, b = rng.choice(cands)
    perturb_move_to_another_field.moved = (type(n), a, b)
    if a == 'args':
        n.keywords = [ast.keyword(arg='moved_here', value=n.args[0])]
        n.args = []
    else:
        setattr(n, b, getattr(n, a))
        setattr(n, a, None)
    return 'subtree-moved-to-another-field-of-its-parent'


def perturb_extra_name_in_a_name_list(rng, frag):
    """global/nonlocal statements hold a plain list of names: one more name, which the program never mentions"""
    nodes = [n for n in ast.walk(frag) if isinstance(n, (ast.Global, ast.Nonlocal))]
    if not nodes:
        return None
    n = rng.choice(nodes)
    n.names = list(n.names) + ['zz_never_mentioned']
    return 'extra-absent-name-in-a-global-or-nonlocal-list'


def run_program(ctx, rng, src, origin, foreign_patterns):
    from pedal.core.commands import clear_report, contextualize_report
    try:
        tree = ast.parse(src)
    except (SyntaxError, ValueError):
        return
    src = cc.present(ctx, src)
    tree = ast.parse(src)
    idents, consts = program_tokens(tree)
    for _ in range(5):
        d = cc.derive(rng, tree)
        if d is None:
            continue
        ms = check(ctx, src, d.pattern, 'derived')
        foreign_patterns.append(d.pattern)
        if ms and '__' in d.pattern:
            sub_queries(ctx, rng, src, d.pattern, ms)
        # perturbations of the same fragment
        for fn in rng.sample(['absent-identifier', 'absent-literal', 'literal-type', 'look-alike', 'swap', 'conflict', 'callee-and-argument', 'callee-under-operator', 'ellipsis', 'name-list', 'other-field'], 4):
            frag = cc.clone(d.fragment)
            if fn == 'absent-identifier':
                kind = perturb_absent_identifier(rng, frag)
            elif fn == 'absent-literal':
                kind = perturb_absent_literal(rng, frag)
            elif fn == 'literal-type':
                kind = perturb_literal_type(rng, frag, consts)
            elif fn == 'look-alike':
                kind = perturb_look_alike_literal(rng, frag, consts)
            elif fn == 'swap':
                kind = perturb_swap_siblings(rng, frag)
            elif fn == 'callee-and-argument':
                kind = perturb_callee_and_argument(rng, frag)
            elif fn == 'callee-under-operator':
                kind = perturb_other_callee_under_operator(rng, frag, idents)
            elif fn == 'ellipsis':
                kind = perturb_ellipsis(rng, frag, consts)
            elif fn == 'name-list':
                kind = perturb_extra_name_in_a_name_list(rng, frag)
            elif fn == 'other-field':
                kind = perturb_move_to_another_field(rng, frag)
                if kind and ast.unparse(ast.fix_missing_locations(cc.clone(frag))).replace(' ', '') in src.replace(' ', ''):
                    kind = None           # (the program happens to contain the moved form as well)
                if kind:
                    # ... or a node of the moved SHAPE (the same part present, the other one absent) that the generalised pattern
                    # may describe just as well: then nothing can be said about "absent"
                    cls, was, now = perturb_move_to_another_field.moved
                    if cls is ast.Slice and any(isinstance(x, ast.Slice) and getattr(x, now) is not None and getattr(x, was) is None for x in ast.walk(tree)):
                        kind = None
                        ctx.count('moved_field_patterns_skipped_(the program has that shape elsewhere)')
            else:
                kind = perturb_conflicting_placeholder(rng, frag)
            if kind is None:
                continue
            try:
                pattern = ast.unparse(ast.fix_missing_locations(frag))
            except Exception:
                continue
            must_be_empty = kind in ('subtree-moved-to-another-field-of-its-parent', 'extra-absent-name-in-a-global-or-nonlocal-list', 'absent-identifier', 'absent-literal', 'literal-of-other-type', 'literal-look-alike-of-other-kind', 'literal-replaced-by-ellipsis')
            ctx.seen('perturbations', kind)
            check(ctx, src, pattern, kind, must_be_empty=must_be_empty)
    # expression-level patterns (the trimmed pattern root is an expression), verbatim and with one placeholder on two names
    for frag in expression_patterns(rng, tree):
        try:
            check(ctx, src, ast.unparse(ast.fix_missing_locations(frag)), 'expression-pattern')
            ctx.seen('perturbations', 'expression-pattern')
            f2 = cc.clone(frag)
            kind = perturb_conflicting_placeholder(rng, f2)
            if kind:
                ctx.seen('perturbations', 'expression-pattern|' + kind)
                check(ctx, src, ast.unparse(ast.fix_missing_locations(f2)), 'expression-pattern|' + kind)
            f4 = cc.clone(frag)
            kind = perturb_callee_and_argument(rng, f4)
            if kind:
                check(ctx, src, ast.unparse(ast.fix_missing_locations(f4)), 'expression-pattern|' + kind)
            f5 = cc.clone(frag)
            kind = perturb_other_callee_under_operator(rng, f5, idents)
            if kind:
                check(ctx, src, ast.unparse(ast.fix_missing_locations(f5)), kind, must_be_empty=True)
            f6 = cc.clone(frag)
            kind = perturb_shift_call_under_operator(rng, f6)
            if kind:
                shifted = ast.unparse(ast.fix_missing_locations(f6))
                # only a program that really contains the shifted call may match it
                if shifted.replace(' ', '') not in src.replace(' ', ''):
                    ctx.seen('perturbations', kind)
                    check(ctx, src, shifted, kind, must_be_empty=False)
            f3 = cc.clone(frag)
            names = sorted({n.id for n in ast.walk(f3) if isinstance(n, ast.Name) and not n.id.startswith('_')} - {n.func.id for n in ast.walk(f3) if isinstance(n, ast.Call) and isinstance(n.func, ast.Name)})
            if names:
                target = rng.choice(names)
                for n in ast.walk(f3):
                    if isinstance(n, ast.Name) and n.id == target:
                        n.id = '_x_'
                check(ctx, src, ast.unparse(ast.fix_missing_locations(f3)), 'expression-pattern|one-name-generalised')
        except RecursionError:
            pass
    for frag in commutative_conflicts(rng, tree):
        try:
            ctx.seen('perturbations', 'commutative-operation|one-placeholder-for-two-identifiers')
            ctx.count('commutative_conflict_patterns')
            check(ctx, src, ast.unparse(ast.fix_missing_locations(frag)), 'commutative-operation|one-placeholder-for-two-identifiers')
        except RecursionError:
            pass
    # patterns cut from other programs
    for pat in rng.sample(foreign_patterns, min(3, len(foreign_patterns))):
        try:
            ptree = ast.parse(pat)
        except SyntaxError:
            continue
        p_idents, p_consts = program_tokens(ptree)
        concrete = {i for i in p_idents if not (i.startswith('_') and i.endswith('_'))}
        absent = concrete - idents
        absent_consts = {c for c in p_consts if c not in consts and c[0] in ('int', 'float', 'str')}
        ctx.seen('perturbations', 'foreign')
        check(ctx, src, pat, 'foreign-pattern-with-absent-content' if (absent or absent_consts) else 'foreign', must_be_empty=bool(absent or absent_consts))
    del foreign_patterns[:-40]


NESTED = [
    ("if a > 0:\n    if b > 0:\n        print(b)\n    total = 1\nx = 0\nif x:\n    x = x + 1\n", "if ___:\n    __body__", ast.If),
    ("if a:\n    if b:\n        if c:\n            print(c)\n", "if ___:\n    __body__", ast.If),
    ("for i in rows:\n    for j in i:\n        print(j)\n    for k in i:\n        pass\n", "for ___ in ___:\n    __body__", ast.For),
    ("while n:\n    n = n - 1\n    while m:\n        m = m - 1\n", "while ___:\n    __body__", ast.While),
    ("def outer():\n    def inner():\n        return 1\n    return inner\n", "def ___():\n    __body__", ast.FunctionDef),
    ("if a:\n    x = 1\nelse:\n    y = 2\nif b:\n    if c:\n        z = 3\n", "if ___:\n    __body__", ast.If),
    ("data = [[1, 2], [3]]\ntotal = sum(sum(row) for row in data)\nprint(len(str(len(data))))\n", "len(__x__)", ast.Call),
]


def check_same_pattern_continued(ctx):
    """The idiom for nested constructs: the pattern that matched is asked again inside what its placeholder was bound to
    (match['__body__'].find_matches(the same pattern)). Every answer is an embedding into the part that was searched."""
    from pedal.cait.cait_api import find_matches
    for turn in range(2):       # (the second time round every pattern text has been seen before in this process)
        for src, pattern, kind in NESTED:
            src = cc.present(ctx, src, 'plain' if turn == 0 else None)
            root = student_root()
            ph = '__body__' if '__body__' in pattern else '__x__'
            try:
                outer = find_matches(pattern, **cc.kw())
            except Exception as e:
                ctx.violation('C10|find_matches-raised|%s|%s' % (type(e).__name__, site_of(e)), {'src': src, 'pattern': pattern}, traceback.format_exc()[-400:])
                continue
            for m in outer[:8]:
                case = {'src': src, 'pattern': pattern, 'perturbation': 'same-pattern-continued', 'presented': cc.PRESENTED['how']}
                try:
                    bound = m[ph]
                    inner = bound.find_matches(pattern)
                except Exception as e:
                    ctx.violation('C10|sub-query-raised|%s|%s|same-pattern-continued' % (type(e).__name__, site_of(e)), case, traceback.format_exc()[-400:])
                    continue
                ctx.count('same_pattern_continued_queries')
                searched = {id(n) for n in ast.walk(bound.astNode)} if isinstance(getattr(bound, 'astNode', None), ast.AST) else None
                want = [n for n in ast.walk(bound.astNode) if isinstance(n, kind)] if searched is not None else []
                if kind is ast.Call:
                    want = [n for n in want if isinstance(n.func, ast.Name) and n.func.id == 'len']
                roots = []
                for sm in inner:
                    problems = []
                    try:
                        cc.check_witness(sm, pattern, root, problems)
                    except Exception as e:
                        ctx.note('witness checker error (same pattern continued): %r' % (e,))
                        continue
                    ctx.count('sub_matches_witness_checked')
                    for pk, detail in problems[:3]:
                        ctx.violation('C10|not-an-embedding|%s|same-pattern-continued' % pk, case, detail)
                    r = getattr(sm.match_root, 'astNode', None)
                    roots.append(r)
                    if searched is not None and id(r) not in searched:
                        ctx.violation('C10|not-an-embedding|match-rooted-outside-the-part-that-was-searched|same-pattern-continued', case,
                                      'the sub-match is rooted at line %s, outside what %s was bound to' % (getattr(r, 'lineno', '?'), ph))
                ctx.case('nested:%s:%s:%d' % (pattern, src, getattr(getattr(m.match_root, 'astNode', None), 'lineno', 0)))


def run(ctx):
    import os, sys
    sys.setrecursionlimit(20000)
    if ctx.shard % 4 == 1:
        check_same_pattern_continued(ctx)
    from gen.programs import gen_program
    from gen import corpus
    from props.c11 import gen_small, gen_arith
    rng = ctx.rng
    repo = os.path.realpath(os.environ.get('VERIF_REPO', '/repo'))
    foreign = []
    for i in range(ctx.pick(45, 2000)):
        if ctx.time_left() < 6:
            break
        p = gen_program(rng, static_only=(rng.random() < 0.4))
        run_program(ctx, rng, p.src, 'generated', foreign)
        run_program(ctx, rng, gen_small(rng), 'small', foreign)
        run_program(ctx, rng, gen_arith(rng), 'arith', foreign)
    files = corpus.corpus_files(max_bytes=ctx.pick(5000, 15000), repo=repo)
    mine = files[ctx.shard::ctx.nshards]
    rng.shuffle(mine)
    for path in mine[:ctx.pick(3, 60)]:
        if ctx.time_left() < 4:
            break
        text = corpus.read(path)
        if text is None:
            continue
        ctx.count('corpus_files')
        run_program(ctx, rng, text, 'corpus', foreign)


def replay(ctx, case):
    from pedal.core.commands import clear_report, contextualize_report
    import sys
    sys.setrecursionlimit(20000)
    cc.present(ctx, case['src'], case.get('presented', 'plain'))
    kind = case.get('perturbation', 'derived')
    check(ctx, case['src'], case['pattern'], kind,
          must_be_empty=kind in ('absent-identifier', 'absent-literal', 'literal-of-other-type', 'literal-look-alike-of-other-kind', 'foreign-pattern-with-absent-content',
                                 'extra-absent-name-in-a-global-or-nonlocal-list', 'subtree-moved-to-another-field-of-its-parent'))
