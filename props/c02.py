"""C02 - see DESIGN.md section 4."""
from props import resolver_common as rc

ID = 'C02'
LEVEL = 'exploration'
TECHNIQUE = 'differential oracle: conjunction-of-correct model vs real resolve; real tool feedback scenarios in all creation orders'
LEVEL_TEXT = 'Held on the resolves observed: final.correct/success/to_json compared with the conjunction over eligible feedback for every generated report and for tool-produced (syntax/runtime/TIFA/assert) scenarios in every creation order; the verdict handed back by the platforms\' own resolvers (GradeScope, full) follows the same rule.'
LEVEL_NOTE = 'Trusts the reference model of eligibility shared with C01.'
RULE = rc.RULES[ID]
ASSUMPTIONS = [
    'the reference model (oracles/resolver_model.py) encodes the documented category order, priority aliases and '
    'suppression forms from the property statement and docsrc; cells the statement leaves open (undocumented '
    'priority strings, score operators * and /, an eligible feedback that itself carries the default label) are '
    'skipped and counted as unmodelled',
    'held on the executions observed only',
]
SHARDS = {'quick': 16, 'thorough': 48}
BUDGET = {'quick': 40, 'thorough': 600}
MIN_NONTRIVIAL = {'quick': 200, 'thorough': 5000}
REQUIRED_COUNTERS = {'quick': ['resolves_checked'], 'thorough': ['resolves_checked']}


def run(ctx):
    rc.run(ctx, ID)


def replay(ctx, case):
    rc.replay(ctx, ID, case)
