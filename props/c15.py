"""C15 - captured output and mocked input exactly record what student code did, in order."""
import io
import sys
import traceback

ID = 'C15'
LEVEL = 'exploration'
TECHNIQUE = 'shadow model over operation histories: expected text/inputs known by construction of each snippet, compared after every operation with raw_output/output/context records/input queue; real stdout watched for leaks'
LEVEL_TEXT = ('Held on the histories observed: random sequences of run/call/evaluate/clear_output/set_input/queue_input/clear_input/'
              'run(inputs=) over snippets whose exact writes (print in every form, sys.stdout.write, input prompts, text before a '
              'raise) and reads are known by construction are executed in one real sandbox; after EVERY operation the shadow model '
              'is compared with get_raw_output(), get_output(), get_input(), and the per-execution context.output/.inputs, and the '
              'real stdout must have received nothing (except in the one execution per history that is lent the real console). Some histories '
              'run on a report of the grader\'s own.')
LEVEL_NOTE = ('The model is written from the statement (concatenation since last clear; per execution rstrip/split/rstrip view only '
              'for executions that printed something; FIFO inputs with default "0"). Callable input sources are exercised but only '
              'their returned values are modelled.')
RULE = ('History = student file with 6 generated functions + 3-15 operations. Non-trivial: >=2 executions of which at least one is '
        'silent, or a queue/clear operation between two executions, or more reads than queued inputs. Distinct = distinct '
        'canonical history.')
ASSUMPTIONS = ['snippets are deterministic and their output is known by construction (validated against plain CPython for every '
               'snippet before use: counter snippets_validated)']
SHARDS = {'quick': 16, 'thorough': 32}
BUDGET = {'quick': 40, 'thorough': 900}
MIN_NONTRIVIAL = {"quick": 5000, "thorough": 100000}
REQUIRED_COUNTERS = {'quick': ['operations_checked', 'snippets_validated'], 'thorough': ['operations_checked', 'snippets_validated']}

TEXTS = ['a', 'hello world', '', ' ', '  padded  ', 'tab\there', 'trail \t ', 'x' * 30, 'line1\nline2', '\n', '\n\n', 'end\n',
         ' \n ', 'café', '{}', '%s', '0', "quote'\"", '\r', 'cr\rlf', '\x0c', 'a\n\n\nb', '\t']
PROMPTS = ['', 'Name? ', 'n: ', '>>> ', 'multi\nline prompt', ' ']


def gen_actions(rng, allow_raise=True):
    """-> list of actions describing what a snippet does"""
    acts = []
    r = rng.random()
    if r < 0.18:
        return acts            # silent
    for _ in range(rng.choice([1, 1, 1, 2, 3, 4])):
        k = rng.random()
        if k < 0.45:
            n = rng.choice([0, 1, 1, 2, 3])
            args = [rng.choice(TEXTS) for _ in range(n)]
            sep = rng.choice([None, None, '', '-', '\n', ', '])
            end = rng.choice([None, None, None, '', ' ', '!\n', '\n\n'])
            acts.append(('print', args, sep, end))
        elif k < 0.55:
            acts.append(('print-num', rng.choice([0, 7, -3, 2.5, True, None, [1, 'a'], {'k': 1}, (1,), 1e100])))
        elif k < 0.64:
            acts.append(('write', rng.choice(TEXTS)))
        elif k < 0.7:
            acts.append((rng.choice(['writelines', 'writelines', 'writelines-gen']), [rng.choice(TEXTS) for _ in range(rng.randint(0, 3))]))
        elif k < 0.92:
            # input() by its name, or through another name the student's file bound to it when it was first run
            acts.append((rng.choice(['input', 'input', 'input-alias']), rng.choice(PROMPTS), rng.random() < 0.7))
        else:
            acts.append(('print-file-stdout', rng.choice(TEXTS)))
    if allow_raise and rng.random() < 0.12:
        acts.append(rng.choice([('raise',), ('exit', 'raise SystemExit'), ('exit', 'import sys\nsys.exit(2)'), ('exit', 'quit()'), ('close-stdout',)]))
    return acts


def actions_to_code(acts, ind=''):
    lines = []
    for a in acts:
        if a[0] == 'print':
            _, args, sep, end = a
            parts = [repr(x) for x in args]
            if sep is not None:
                parts.append('sep=%r' % sep)
            if end is not None:
                parts.append('end=%r' % end)
            lines.append('print(%s)' % ', '.join(parts))
        elif a[0] == 'print-num':
            lines.append('print(%r)' % (a[1],))
        elif a[0] == 'write':
            lines.append('import sys')
            lines.append('sys.stdout.write(%r)' % a[1])
        elif a[0] == 'writelines':
            lines.append('import sys')
            lines.append('sys.stdout.writelines(%r)' % (list(a[1]),))
        elif a[0] == 'writelines-gen':
            # any iterable of strings is accepted by writelines; a generator can be walked only once
            lines.append('import sys')
            lines.append('sys.stdout.writelines(_t for _t in %r)' % (list(a[1]),))
        elif a[0] == 'print-file-stdout':
            lines.append('import sys')
            lines.append('print(%r, file=sys.stdout)' % a[1])
        elif a[0] in ('input', 'input-alias'):
            _, prompt, echo = a
            lines.append(('_v = input(%r)' if a[0] == 'input' else '_v = ask(%r)') % prompt)
            if echo:
                lines.append("print('read', repr(_v))")
        elif a[0] == 'raise':
            # (an object whose repr prints is at hand when the failure happens: nobody asks for its repr)
            lines.append("_held = [noisy_thing] if 'noisy_thing' in globals() else None")
            lines.append("raise ValueError('planned')")
        elif a[0] == 'exit':
            lines.extend(a[1].split('\n'))
        elif a[0] == 'close-stdout':
            # the last thing the program does is close the stream it was writing to: what it wrote before that was written
            lines.append('import sys')
            lines.append('sys.stdout.close()')
    if not lines:
        lines.append('_quiet = 1')
    return '\n'.join(ind + l for l in lines)


def simulate(acts, queue):
    """-> (text written, inputs consumed); mutates queue (list) - FIFO with default '0'"""
    out = []
    consumed = []
    for a in acts:
        if a[0] == 'print':
            _, args, sep, end = a
            out.append((' ' if sep is None else sep).join(str(x) for x in args) + ('\n' if end is None else end))
        elif a[0] == 'print-num':
            out.append(str(a[1]) + '\n')
        elif a[0] == 'write':
            out.append(a[1])
        elif a[0] in ('writelines', 'writelines-gen'):
            out.append(''.join(a[1]))
        elif a[0] == 'print-file-stdout':
            out.append(a[1] + '\n')
        elif a[0] in ('input', 'input-alias'):
            _, prompt, echo = a
            out.append(prompt + '\n')            # the statement: prompts are part of what student code wrote
            v = queue.pop(0) if queue else '0'
            consumed.append(v)
            if echo:
                out.append('read ' + repr(v) + '\n')
        elif a[0] in ('raise', 'exit', 'close-stdout'):
            break
    return ''.join(out), consumed


def validate_snippet(ctx, acts):
    """The by-construction expectation is itself checked against plain CPython once per snippet."""
    import builtins, contextlib
    q = ['in1', 'in2', 'in3']
    want, consumed = simulate(acts, list(q))
    qq = list(q)

    def fake_input(prompt=''):
        print(prompt)
        return qq.pop(0) if qq else '0'
    b = dict(vars(builtins)); b['input'] = fake_input
    class Keeps(io.StringIO):
        def close(self):
            self.kept = self.getvalue()
            super().close()
    buf = Keeps()
    saved = sys.stdout
    sys.stdout = buf
    try:
        try:
            exec(compile(actions_to_code(acts), 'snippet.py', 'exec'), {'__builtins__': b, '__name__': '__main__', 'ask': fake_input})
        except (ValueError, SystemExit):
            pass
    finally:
        sys.stdout = saved
    ctx.count('snippets_validated')
    if (buf.kept if buf.closed else buf.getvalue()) != want:
        raise AssertionError('harness model of a snippet is wrong: %r vs %r for %r' % ((buf.kept if buf.closed else buf.getvalue()), want, acts))


class Model:
    def __init__(self):
        self.raw = ''
        self.lines = []
        self.queue = []
        self.execs = []     # (text, consumed)

    def execution(self, acts):
        text, consumed = simulate(acts, self.queue)
        self.raw += text
        if text:
            self.lines.extend([l.rstrip() for l in text.rstrip().split('\n')])
        self.execs.append((text, consumed))
        return text, consumed

    def clear_output(self):
        self.raw = ''
        self.lines = []

    def set_input(self, inputs, clear=True):
        if inputs is None:
            self.queue = []
        if clear:
            self.queue = []
        if isinstance(inputs, str):
            self.queue.append(inputs)
        elif isinstance(inputs, (int, float, bool)):
            self.queue.append(str(inputs))
        elif isinstance(inputs, (list, tuple)):
            self.queue.extend(str(v) for v in inputs)


INPUT_VALUES = ['alpha', '42', '', ' spaced ', 'x y', '3.5', 'True', '0', 'last', 'é']


def gen_history(rng):
    funcs = [gen_actions(rng, allow_raise=(i == 5)) for i in range(6)]
    main = gen_actions(rng, allow_raise=False)
    ops = [('run-main', None)]
    for _ in range(rng.randint(3, 15)):
        r = rng.random()
        if r < 0.22:
            ops.append(('run', gen_actions(rng)))
        elif r < 0.42:
            ops.append(('call', rng.randrange(6)))
        elif r < 0.52:
            ops.append(('evaluate', rng.randrange(6)))
        elif r < 0.6:
            ops.append(('clear_output',))
        elif r < 0.7:
            vals = [rng.choice(INPUT_VALUES) for _ in range(rng.randint(0, 3))]
            kind = rng.random()
            if kind < 0.2 and vals:
                ops.append(('set_input', vals[0], True))
            elif kind < 0.3:
                ops.append(('set_input', rng.choice([5, 2.5, True]), rng.random() < 0.5))
            else:
                ops.append(('set_input', vals, rng.random() < 0.7))
        elif r < 0.8:
            ops.append(('queue_input', [rng.choice(INPUT_VALUES) for _ in range(rng.randint(1, 3))]))
        elif r < 0.83:
            ops.append(('clear_input',))
        elif r < 0.84:
            ops.append(('set_input-own-queue',))
        elif r < 0.85:
            ops.append(('callable-then-queue', [rng.choice(INPUT_VALUES) for _ in range(rng.randint(0, 3))], rng.random() < 0.5))
        elif r < 0.93:
            ops.append(('run-inputs', gen_actions(rng), [rng.choice(INPUT_VALUES) for _ in range(rng.randint(0, 3))]))
        elif r < 0.97:
            ops.append(('call-inputs', rng.randrange(6), [rng.choice(INPUT_VALUES) for _ in range(rng.randint(0, 2))]))
        else:
            ops.append(('run-main-again', None))
    if rng.random() < 0.12:
        # once in the history the instructor lets one program talk to the real console (Sandbox.run(real_io=True)); it ends
        # normally, with an error, or with an exception that run() hands on to the instructor
        acts = [a for a in gen_actions(rng, allow_raise=False) if a[0] not in ('input', 'input-alias')]
        ops.insert(rng.randint(1, len(ops)), ('run-real-io', acts, rng.choice(['normally', 'with-an-error', 'with-KeyboardInterrupt'])))
    return {'funcs': funcs, 'main': main, 'ops': ops, 'echo_to_console': rng.random() < 0.15, 'full_traceback': rng.random() < 0.25,
            'own_report': rng.random() < 0.15}


NOISY = ("class Noisy:\n    def __repr__(self):\n        print('repr of a Noisy was asked for')\n        return 'Noisy()'\n"
         "noisy_thing = Noisy()\n")


def student_file(h):
    parts = ['ask = input\n', NOISY]
    for i, acts in enumerate(h['funcs']):
        parts.append('def f%d():\n%s\n    return %d\n' % (i, actions_to_code(acts, '    '), i * 10))
    parts.append(actions_to_code(h['main']))
    return '\n'.join(parts) + '\n'


def tolist(h):
    """JSON round trip turns tuples into lists; normalise so replay == original"""
    import json
    return json.loads(json.dumps(h))


def as_acts(acts):
    return [tuple(a) for a in acts]


def check_history(ctx, h):
    from pedal.core.commands import clear_report, contextualize_report
    from pedal.sandbox import commands as sbx
    h = tolist(h)
    funcs = [as_acts(a) for a in h['funcs']]
    main = as_acts(h['main'])
    clear_report()
    if h.get('own_report'):
        # the grader keeps this submission's report to herself: every command is given that report (the default one holds another
        # submission meanwhile)
        from pedal.core.report import Report
        from props import sbx_common as sc
        contextualize_report('the_default_reports_program = 1\nprint(the_default_reports_program)\n')
        own = Report()
        contextualize_report(student_file({'funcs': funcs, 'main': main}), report=own)
        sbx = sc.Commands(own)
        ctx.count('histories_on_a_report_of_their_own')
    else:
        contextualize_report(student_file({'funcs': funcs, 'main': main}))
    sandbox = sbx.get_sandbox()
    if h.get('full_traceback'):
        # the instructor's debugging switch: tracebacks keep pedal's own frames too - what the program wrote is the same
        sandbox.full_traceback = True
        ctx.count('histories_with_full_tracebacks')
    echo = bool(h.get('echo_to_console'))
    if echo:
        # the instructor lets print() show on the real console as well (allow_function('print')): what is captured is unchanged
        sandbox.allow_function('print')
        ctx.count('histories_with_console_echo')
    m = Model()
    n_exec = 0
    silent = 0
    queue_ops_between = 0
    starved = 0
    real_out = io.StringIO()
    saved_stdout = sys.stdout
    saved_stdin = sys.stdin
    sys.stdout = real_out
    sys.stdin = io.StringIO('')         # (nobody is to read the real console; whoever does gets EOFError instead of waiting)
    try:
        for idx, op in enumerate(h['ops']):
            kind = op[0]
            expect_exec = None
            try:
                if kind in ('run-main', 'run-main-again'):
                    expect_exec = m.execution(main)
                    sbx.run()
                elif kind == 'run':
                    acts = as_acts(op[1])
                    expect_exec = m.execution(acts)
                    sbx.run(code=actions_to_code(acts))
                elif kind == 'run-inputs':
                    acts = as_acts(op[1])
                    m.set_input(op[2], True)
                    expect_exec = m.execution(acts)
                    sbx.run(code=actions_to_code(acts), inputs=op[2])
                elif kind == 'run-real-io':
                    acts = as_acts(op[1])
                    expect_exec = m.execution(acts)
                    m.set_input(None)       # (documented: the queue is cleared when the real console is given back)
                    code = actions_to_code(acts) + {'normally': '', 'with-an-error': "\nraise ValueError('planned')",
                                                    'with-KeyboardInterrupt': '\nraise KeyboardInterrupt'}[op[2]]
                    try:
                        sandbox.run(code=code, real_io=True)
                    except KeyboardInterrupt:
                        if op[2] != 'with-KeyboardInterrupt':
                            raise
                    # what it wrote was meant to be seen on the console as well
                    real_out.seek(0)
                    real_out.truncate()
                    ctx.count('executions_with_the_real_console')
                elif kind == 'call':
                    expect_exec = m.execution(funcs[op[1]])
                    sbx.call('f%d' % op[1])
                elif kind == 'call-inputs':
                    m.set_input(op[2], True)
                    expect_exec = m.execution(funcs[op[1]])
                    sbx.call('f%d' % op[1], inputs=op[2])
                elif kind == 'evaluate':
                    expect_exec = m.execution(funcs[op[1]])
                    sbx.evaluate('f%d()' % op[1])
                elif kind == 'clear_output':
                    m.clear_output()
                    sbx.clear_output()
                elif kind == 'set_input':
                    m.set_input(op[1], op[2])
                    sbx.set_input(op[1], clear=op[2])
                    queue_ops_between += 1
                elif kind == 'queue_input':
                    m.set_input(tuple(op[1]), False)
                    sbx.queue_input(*op[1])
                    queue_ops_between += 1
                elif kind == 'set_input-own-queue':
                    # the queue as read back is given back: nothing changes
                    sbx.set_input(sbx.get_input())
                    queue_ops_between += 1
                elif kind == 'callable-then-queue':
                    # a function supplied the inputs for a while (as allow_real_io() arranges); then a list is queued again
                    sbx.set_input(lambda prompt='': 'from-a-function')
                    m.set_input(None)
                    m.set_input(op[1], True)
                    sbx.set_input(op[1], clear=op[2])
                    queue_ops_between += 1
                elif kind == 'clear_input':
                    m.set_input(None)
                    sbx.clear_input()
                    queue_ops_between += 1
            except BaseException as ex:
                ctx.violation('C15|operation-raised|%s|%s' % (kind, type(ex).__name__), {'history': h, 'upto': idx},
                              traceback.format_exc()[-800:])
                return
            ctx.count('operations_checked')
            ctx.seen('operation_kinds', kind)
            where = {'history': h, 'upto': idx}
            if expect_exec is not None:
                n_exec += 1
                text, consumed = expect_exec
                if not text:
                    silent += 1
                    ctx.count('silent_executions')
                reads = sum(1 for a in (main if kind.startswith('run-main') else []) if a[0] == 'input')
                if consumed and consumed[-1] == '0' and not m.queue:
                    starved += 1
                c = sandbox._context[-1]
                if c.output != text:
                    ctx.violation('C15|execution-record-output|%s' % shape(text, c.output), where,
                                  'execution wrote %r, its record holds %r' % (text, c.output))
                if list(c.inputs) != consumed:
                    ctx.violation('C15|execution-record-inputs|%s' % kind, where,
                                  'execution read %r, its record holds %r' % (consumed, list(c.inputs)))
            raw = sbx.get_raw_output()
            if raw != m.raw:
                ctx.violation('C15|raw-output|%s|after-%s' % (shape(m.raw, raw), kind), where,
                              'expected %r\n     got %r' % (m.raw[-300:], raw[-300:]))
                return
            lines = list(sbx.get_output())
            if lines != m.lines:
                ctx.violation('C15|line-view|%s|after-%s' % (line_shape(m.lines, lines, expect_exec), kind), where,
                              'expected %r\n     got %r' % (m.lines[-12:], lines[-12:]))
                return
            q = sbx.get_input()
            if kind == 'run-real-io' and not isinstance(q, list):
                ctx.violation('C15|input-queue-is-not-a-queue|after-%s|%s' % (kind, op[2]), where,
                              'after the execution with the real console the inputs are %r: later input() calls read the real console' % (q,))
                return
            if isinstance(q, list) and q != m.queue:
                ctx.violation('C15|input-queue|after-%s' % kind, where, 'expected %r got %r' % (m.queue, q))
                return
            if real_out.getvalue() and not echo:
                ctx.violation('C15|leaked-to-real-stdout|%s' % kind, where, real_out.getvalue()[:200])
                return
    finally:
        sys.stdout = saved_stdout
        sys.stdin = saved_stdin
    nt = None
    if (n_exec >= 2 and silent >= 1) or (queue_ops_between and n_exec >= 2) or starved:
        nt = h
    ctx.case(nt)
    if ctx.evaluations % 101 == 0:
        ctx.sample({'student_file': student_file({'funcs': funcs, 'main': main})[:600], 'ops': h['ops'][:8], 'final_raw': m.raw[-200:],
                    'final_lines': m.lines[-8:]})


def shape(want, got):
    if got.startswith(want):
        return 'extra-text-appended'
    if want.startswith(got):
        return 'text-missing-at-end'
    if sorted(want) == sorted(got):
        return 'reordered'
    return 'different'


def line_shape(want, got, expect_exec):
    if len(got) > len(want) and got[:len(want)] == want:
        extra = got[len(want):]
        if all(e == '' for e in extra):
            return 'phantom-empty-line' + ('-after-silent-execution' if expect_exec is not None and not expect_exec[0] else '')
        return 'extra-lines'
    if len(got) < len(want) and want[:len(got)] == got:
        return 'lines-missing'
    if sorted(want) == sorted(got):
        return 'reordered'
    return 'different'


def run(ctx):
    rng = ctx.rng
    # validate the by-construction oracle on a sample of snippets
    for _ in range(150):
        validate_snippet(ctx, gen_actions(rng))
    n = ctx.pick(1500, 40000)
    for i in range(n):
        if ctx.time_left() < 2:
            break
        check_history(ctx, gen_history(rng))
    if ctx.shard == 0:
        for h in FIXED:
            check_history(ctx, h)


FIXED = [
    # silent call after a printing run
    {'funcs': [[]] * 6, 'main': [('print', ['hi'], None, None)], 'ops': [('run-main', None), ('call', 0), ('evaluate', 1), ('run', [])]},
    # more reads than inputs
    {'funcs': [[('input', 'p', True), ('input', 'q', True), ('input', '', True)]] + [[]] * 5, 'main': [],
     'ops': [('run-main', None), ('set_input', ['a'], True), ('call', 0), ('call', 0), ('queue_input', ['z']), ('call', 0)]},
    {'funcs': [[('print', ['\n'], None, '')]] + [[]] * 5, 'main': [('write', ' ')],
     'ops': [('run-main', None), ('call', 0), ('clear_output',), ('call', 1), ('call', 0)]},
]


def replay(ctx, case):
    check_history(ctx, case['history'] if 'history' in case else case)
