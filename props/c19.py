"""C19 - TIFA's operator typing and value typing agree with what CPython does at run time."""
import ast
import operator
import traceback

ID = 'C19'
LEVEL = 'exploration'
TECHNIQUE = 'run-it oracle: every operator x operand-type cell is executed by CPython (TypeError or result value) and analysed by the real tifa_analysis; incompatible_types / inferred result type compared; value typing checked for stability and conformance on generated nested values'
LEVEL_TEXT = ('The table of 13 binary operators and 10 comparisons x ordered pairs of core operand types (int, float, str, list, '
              'tuple; several sample values each, containers empty and non-empty) is enumerated completely in both tiers: `a = L; b = R; '
              'c = a OP b` is analysed by the real TIFA and executed by CPython; CPython raising TypeError requires incompatible_types, '
              'and when TIFA reports nothing the inferred type of c must be a pedal Type to which the run-time result conforms. '
              'Expression trees up to depth 3 over the same leaves are sampled. For generated JSON-like values the computed pedal type '
              'must not raise, must be a subtype of itself on three consecutive queries and of the normalised Python type of the value.')
LEVEL_NOTE = ('Containers in one cell hold elements of one type and the same type on both sides, so CPython\'s verdict depends on the '
              'operand types, not on element values; zero divisors and negative exponents are skipped (ValueError/ZeroDivisionError '
              'are not type errors).')
RULE = ('Cell = (operator, left sample, right sample); non-trivial/distinct = distinct cell (each carries an obligation). Expression '
        'trees and values: distinct source text / distinct value repr.')
ASSUMPTIONS = ['the type of the run-time result is what the inferred type must admit (checked with pedal\'s own is_subtype on the value\'s pedal type)']
SHARDS = {'quick': 8, 'thorough': 32}
BUDGET = {'quick': 40, 'thorough': 900}
MIN_NONTRIVIAL = {'quick': 3000, 'thorough': 30000}
EXHAUSTIVE = {'quick': True, 'thorough': True}
REQUIRED_COUNTERS = {'quick': ['operator_cells', 'values_typed'], 'thorough': ['operator_cells', 'values_typed', 'expression_trees']}

BINOPS = [('+', operator.add), ('-', operator.sub), ('*', operator.mul), ('/', operator.truediv), ('//', operator.floordiv), ('%', operator.mod),
          ('**', operator.pow), ('<<', operator.lshift), ('>>', operator.rshift), ('&', operator.and_), ('|', operator.or_), ('^', operator.xor),
          ('@', operator.matmul)]
CMPOPS = [('<', operator.lt), ('<=', operator.le), ('>', operator.gt), ('>=', operator.ge), ('==', operator.eq), ('!=', operator.ne),
          ('in', lambda a, b: a in b), ('not in', lambda a, b: a not in b), ('is', operator.is_), ('is not', operator.is_not)]

SAMPLES = {
    'int': ['0', '1', '2', '7', '-3'],
    'float': ['0.0', '1.5', '2.0', '-0.5'],
    'str': ["''", "'a'", "'abc'", "'%s'", "'%d items'"],
    'list-int': ['[]', '[1]', '[1, 2, 3]'],
    'list-str': ["['a']", "['a', 'b']"],
    'list-float': ['[1.0]', '[2.5, 1.0]'],
    'tuple-int': ['()', '(1,)', '(1, 2)'],
    'tuple-str': ["('a',)", "('a', 'b')"],
    'tuple-float': ['(1.0,)', '(2.0, 0.5)'],
    'bool': ['True', 'False'],
}


def tkind(label):
    return label.split('-')[0]


def same_element_family(l, r):
    """containers in one cell must hold the same element type (or be empty)"""
    le = l.split('-')[1] if '-' in l else None
    re_ = r.split('-')[1] if '-' in r else None
    return le is None or re_ is None or le == re_


def skip_cell(op, lv, rv):
    if op in ('/', '//', '%') and isinstance(rv, (int, float)) and not isinstance(lv, str) and rv == 0:
        return True
    if op == '**' and isinstance(rv, (int, float)) and isinstance(lv, (int, float)) and lv == 0 and rv < 0:
        return True             # ZeroDivisionError
    if op == '<<' and isinstance(rv, int) and rv < 0 or op == '>>' and isinstance(rv, int) and rv < 0:
        return True
    if op == '%' and isinstance(lv, str) and '%' in lv:
        return True            # printf formatting with a conversion in the text: the verdict depends on the format string, not on the types
    return False


_ANALYSES = [0]


def analyse(code):
    from pedal.core.commands import clear_report, contextualize_report
    from pedal.tifa import tifa_analysis
    clear_report()
    _ANALYSES[0] += 1
    if _ANALYSES[0] % 7 == 3:
        # the grader keeps this submission's report to herself (the default report holds another program meanwhile)
        from pedal.core.report import Report
        contextualize_report('the_default_reports_program = "text"\nprint(the_default_reports_program + "s")\n')
        own = Report()
        contextualize_report(code, report=own)
        return tifa_analysis(report=own)
    contextualize_report(code)
    return tifa_analysis()


_TURN = [0]


def check_cell(ctx, op, fn, lsrc, rsrc, lk, rk, prelude=None):
    from pedal.types.new_types import Type, is_subtype
    from pedal.types.normalize import get_pedal_type_from_value
    lv, rv = eval(lsrc), eval(rsrc)
    if skip_cell(op, lv, rv):
        ctx.count('cells_skipped_value_dependent')
        return
    code = 'a = %s\nb = %s\nc = a %s b\n' % (lsrc, rsrc, op)
    case = {'code': code}
    _TURN[0] += 1
    if _TURN[0] % 2 == 0 and prelude is None:
        prelude = ('left', 'right', 'both')[(_TURN[0] // 2) % 3]
    if prelude:
        # a variable held another value of its kind before (an empty container, a zero): what counts is what it holds now
        first = {'int': '0', 'float': '0.0', 'str': "''", 'list': '[]', 'tuple': '()'}
        pre = ('a = %s\nprint(a)\n' % first[tkind(lk)] if prelude in ('left', 'both') else '') + \
              ('b = %s\nprint(b)\n' % first[tkind(rk)] if prelude in ('right', 'both') else '')
        code = pre + code
        case = {'code': code, 'prelude': prelude}
        ctx.count('cells_with_earlier_assignments')
    cell = '%s|%s|%s' % (op, tkind(lk), tkind(rk))
    try:
        result = fn(lv, rv)
        cpy = 'ok'
    except TypeError as e:
        cpy, result = 'TypeError', None
    except Exception as e:
        ctx.count('cells_skipped_other_runtime_error')
        return
    ctx.count('operator_cells')
    ctx.case(code)
    ctx.seen('operator_type_cells', cell)
    try:
        t = analyse(code)
    except Exception as e:
        ctx.violation('C19|tifa-raised|%s' % type(e).__name__, case, traceback.format_exc()[-400:])
        return
    if not t.success:
        ctx.violation('C19|analysis-failed|%s' % type(t.error).__name__, case, repr(t.error)[:300])
        return
    inc = t.issues.get('incompatible_types') or []
    if cpy == 'TypeError':
        ctx.count('cells_cpython_typeerror')
        if not inc and type(lv) is type(rv) and type(lv) in (list, tuple) and op in ('<', '<=', '>', '>='):
            # two lists (or two tuples) are orderable as such; the TypeError comes from comparing their ELEMENTS and depends on the
            # values (an empty operand, or equal leading elements, and there is none): not decided by the operand types
            ctx.count('cells_typeerror_from_comparing_elements_(value dependent, not judged)')
            return
        if not inc:
            ctx.violation('C19|missed-incompatible-types|%s' % cell, case, 'CPython raises TypeError, TIFA reports %s' % sorted(k for k, v in t.issues.items() if v))
        return
    ctx.count('cells_cpython_ok')
    if inc:
        ctx.count('tifa_stricter_than_cpython_(not judged by the statement)')
        ctx.seen('tifa_stricter_cells', cell)
        return
    var = t.top_level_variables.get('c')
    ty = getattr(var, 'type', None)
    if not isinstance(ty, Type):
        ctx.violation('C19|inferred-type-is-not-a-pedal-type|%s' % cell, case, 'type of c is %r (%s)' % (ty, type(ty).__name__))
        return
    try:
        vt = get_pedal_type_from_value(result)
        ok = is_subtype(vt, ty)
    except Exception as e:
        ctx.violation('C19|conformance-check-raised|%s|%s' % (type(e).__name__, cell), case, traceback.format_exc()[-400:])
        return
    if not ok:
        hz = power_hazard('(%s) %s (%s)' % (lsrc, op, rsrc)) if op == '**' else None
        ctx.violation('C19|result-does-not-conform|%s|inferred=%s|actual=%s%s' % (cell, type(ty).__name__, type(result).__name__, '|' + hz if hz else ''), case,
                      'CPython result %r (%s), TIFA infers %s' % (result, type(result).__name__, ty))
    if ctx.evaluations % 499 == 0:
        ctx.sample({'code': code, 'cpython': repr(result)[:60], 'tifa_type': str(ty), 'issues': sorted(k for k, v in t.issues.items() if v)})


def all_cells():
    out = []
    for lk, ls in SAMPLES.items():
        for rk, rs in SAMPLES.items():
            if lk == 'bool' or rk == 'bool':
                continue            # the statement's core types: int, float, str, list, tuple
            mixed = not same_element_family(lk, rk)      # e.g. a list of ints and a list of strs: what the operation gives holds both
            for l in ls:
                for r in rs:
                    for op, fn in BINOPS + CMPOPS:
                        if op in ('in', 'not in') and tkind(rk) in ('int', 'float'):
                            pass
                        out.append((op, fn, l, r, lk, rk))
    return out


# ---------------------------------------------------------------------------------------------------------------
# expression trees
# ---------------------------------------------------------------------------------------------------------------

def gen_tree(rng, depth):
    if depth == 0 or rng.random() < 0.3:
        k = rng.choice(['int', 'float', 'str', 'list-int', 'tuple-int'])
        return rng.choice(SAMPLES[k])
    op = rng.choice(['+', '-', '*', '/', '//', '%', '**', '<', '<=', '==', '!=', '>', '>=', '&', '|', '<<'])
    return '(%s %s %s)' % (gen_tree(rng, depth - 1), op, gen_tree(rng, depth - 1))


def power_hazard(src):
    """a ** whose result type depends on the operand VALUES: int ** negative int is a float, negative ** fraction is complex"""
    import ast
    try:
        tree = ast.parse(src, mode='eval')
    except SyntaxError:
        return None
    for n in ast.walk(tree):
        if isinstance(n, ast.BinOp) and isinstance(n.op, ast.Pow):
            try:
                lv = eval(compile(ast.Expression(n.left), '<l>', 'eval'))
                rv = eval(compile(ast.Expression(n.right), '<r>', 'eval'))
            except Exception:
                continue
            if isinstance(lv, (int, float)) and isinstance(rv, (int, float)) and not isinstance(lv, bool) and not isinstance(rv, bool):
                if rv < 0 and isinstance(lv, int) and isinstance(rv, int):
                    return 'int-to-a-negative-int-power-is-a-float'
                if lv < 0 and isinstance(rv, float) and rv != int(rv):
                    return 'negative-base-to-a-fractional-power-is-complex'
    return None


def check_tree(ctx, src):
    from pedal.types.new_types import Type, is_subtype
    from pedal.types.normalize import get_pedal_type_from_value
    code = 'c = %s\n' % src
    try:
        result = eval(src)
        cpy = 'ok'
    except TypeError:
        cpy, result = 'TypeError', None
    except Exception:
        return
    if isinstance(result, (int, float)) and not isinstance(result, bool) and abs(result) > 1e12:
        return
    if isinstance(result, (str, list, tuple)) and len(result) > 2000:
        return
    # the statement speaks about operands' TYPES: value-dependent subexpressions (printf strings, 0 divisors...) are excluded above
    if '%' in src and "'" in src:
        return
    ctx.count('expression_trees')
    ctx.case('T:' + src)
    try:
        t = analyse(code)
    except Exception as e:
        ctx.violation('C19|tifa-raised|%s' % type(e).__name__, {'code': code}, traceback.format_exc()[-400:])
        return
    if not t.success:
        ctx.violation('C19|analysis-failed|expression-tree', {'code': code}, repr(t.error)[:300])
        return
    inc = t.issues.get('incompatible_types') or []
    if cpy == 'TypeError':
        if not inc:
            hz = power_hazard(src)
            ctx.violation('C19|missed-incompatible-types|expression-tree' + ('|' + hz if hz else ''), {'code': code}, 'CPython raises TypeError')
        return
    if inc:
        ctx.count('tifa_stricter_than_cpython_(not judged by the statement)')
        return
    ty = getattr(t.top_level_variables.get('c'), 'type', None)
    if not isinstance(ty, Type):
        ctx.violation('C19|inferred-type-is-not-a-pedal-type|expression-tree', {'code': code}, repr(ty)[:200])
        return
    try:
        ok = is_subtype(get_pedal_type_from_value(result), ty)
    except Exception as e:
        ctx.violation('C19|conformance-check-raised|%s|expression-tree' % type(e).__name__, {'code': code}, traceback.format_exc()[-300:])
        return
    if not ok:
        hz = power_hazard(src)
        ctx.violation('C19|result-does-not-conform|expression-tree|inferred=%s|actual=%s%s' % (type(ty).__name__, type(result).__name__, '|' + hz if hz else ''), {'code': code},
                      'CPython result %r, TIFA infers %s' % (result, ty))


# ---------------------------------------------------------------------------------------------------------------
# value typing
# ---------------------------------------------------------------------------------------------------------------

def gen_value(rng, depth=0):
    r = rng.random()
    if depth >= 3 or r < 0.45:
        return rng.choice([0, 1, -5, 10 ** 20, 0.0, 2.5, -1e-9, True, False, '', 'a', 'hello world', None])
    k = rng.random()
    n = rng.choice([0, 1, 2, 3])
    if k < 0.3:
        return [gen_value(rng, depth + 1) for _ in range(n)]
    if k < 0.5:
        return tuple(gen_value(rng, depth + 1) for _ in range(n))
    if k < 0.75:
        keys = [rng.choice(['a', 'b', 'name', 1, 2, (1, 2), True, None, 1.5]) for _ in range(n)]
        return {key: gen_value(rng, depth + 1) for key in keys}
    out = set()
    for _ in range(n):
        v = rng.choice([0, 1, 2, 'a', 'b', 2.5, None, True, (1, 2), ('x',)])
        out.add(v)
    return out          # frozensets are not in the statement's list of value kinds


def shape(v):
    if isinstance(v, (list, tuple, set, frozenset)):
        inner = sorted({shape(x) for x in v})
        return '%s[%s]' % (type(v).__name__, ','.join(inner)[:40])
    if isinstance(v, dict):
        return 'dict[%s]' % ','.join(sorted({shape(x) for x in v.values()}))[:40]
    return type(v).__name__


def check_value(ctx, v):
    from pedal.types.new_types import Type, is_subtype
    from pedal.types.normalize import get_pedal_type_from_value, normalize_type
    case = {'value': repr(v)}
    sh = shape(v)
    fam = type(v).__name__
    ctx.count('values_typed')
    ctx.case('V:' + repr(v))
    ctx.seen('value_shapes', sh[:60])
    try:
        t = get_pedal_type_from_value(v)
    except Exception as e:
        ctx.violation('C19|value-typing-raised|%s|%s' % (type(e).__name__, fam), case, traceback.format_exc()[-400:])
        return
    if not isinstance(t, Type):
        ctx.violation('C19|value-type-not-a-pedal-type|%s' % fam, case, repr(t)[:200])
        return
    try:
        answers = [is_subtype(t, t) for _ in range(3)]
    except Exception as e:
        ctx.violation('C19|self-subtype-raised|%s|%s' % (type(e).__name__, fam), case, traceback.format_exc()[-400:])
        return
    if answers != [True, True, True]:
        ctx.violation('C19|type-not-stably-subtype-of-itself|%s' % fam, case, answers)
    try:
        nt = normalize_type(type(v)).as_type()
        ok = is_subtype(t, nt)
    except Exception as e:
        ctx.violation('C19|conformance-to-own-python-type-raised|%s|%s' % (type(e).__name__, fam), case, traceback.format_exc()[-400:])
        return
    if not ok:
        ctx.violation('C19|value-type-does-not-conform-to-its-python-type|%s' % fam, case, '%s is not a subtype of %s' % (t, nt))


DEPTH2_LEAVES = ['3', '0.5', '2.5', "'ab'", '[1, 2]', '(1, 2)']
DEPTH2_OPS = ['+', '-', '*', '/', '//', '%', '**', '<', '==', '&', '|', '^', '<<', '>>']


def depth2_trees():
    """every operator over every pair of core leaves, used once more as the left or the right operand of every operator: what a
    sub-expression is typed as decides what is accepted around it"""
    out = []
    for op1 in DEPTH2_OPS:
        for a in DEPTH2_LEAVES:
            for b in DEPTH2_LEAVES:
                inner = '(%s %s %s)' % (a, op1, b)
                try:
                    v = eval(inner)
                except Exception:
                    continue
                if type(v) not in (int, float, str, list, tuple):
                    continue
                for op2 in DEPTH2_OPS:
                    for c in DEPTH2_LEAVES:
                        out.append('(%s %s %s)' % (inner, op2, c))
                        out.append('(%s %s %s)' % (c, op2, inner))
    return out


def run(ctx):
    rng = ctx.rng
    trees = depth2_trees()
    mine = trees[ctx.shard::ctx.nshards]
    if ctx.quick():
        rng.shuffle(mine)
    for src in mine[:ctx.pick(1500, len(mine))]:
        if ctx.time_left() < 20:
            ctx.count('depth2_trees_not_reached_budget')
            break
        check_tree(ctx, src)
        ctx.count('depth2_sweep_trees')
    cells = all_cells()
    for i, (op, fn, l, r, lk, rk) in enumerate(cells):
        if i % ctx.nshards != ctx.shard:
            continue
        check_cell(ctx, op, fn, l, r, lk, rk)
    for _ in range(ctx.pick(150, 4000)):
        if ctx.time_left() < 3:
            break
        check_tree(ctx, gen_tree(rng, rng.choice([1, 2, 3])))
    fixed = [[], (), {}, set(), [[]], [()], ((),), {'a': []}, [1, 'a'], {1, 'a'}, (1, 'a', 2.5), [[1], ['a']], {'k': {1, 2}}, [None], {None: None},
             {(1, 2): [3]}, [{'a': 1}, {'b': 'x'}], ([],), {1.5, 2}]
    if ctx.shard == 0:
        for v in fixed:
            check_value(ctx, v)
    for _ in range(ctx.pick(400, 8000)):
        if ctx.time_left() < 2:
            break
        check_value(ctx, gen_value(rng))


def replay(ctx, case):
    if 'value' in case:
        check_value(ctx, eval(case['value']))
        return
    code = case['code']
    if code.startswith('c = '):
        check_tree(ctx, code[4:].strip())
        return
    lines = code.strip().split('\n')
    if case.get('prelude'):
        lines = lines[-3:]
    l, r = lines[0][4:], lines[1][4:]
    op = lines[2][len('c = a '):-2].strip()
    fn = dict(BINOPS + CMPOPS)[op]
    kinds = {int: 'int', float: 'float', str: 'str', list: 'list', tuple: 'tuple'}
    check_cell(ctx, op, fn, l, r, kinds.get(type(eval(l)), 'int'), kinds.get(type(eval(r)), 'int'), prelude=case.get('prelude') or False)
