"""C14 - a time-limit violation yields exactly one timeout report and a usable sandbox, under every interleaving
of the grader thread with the interrupted student thread."""
import io
import os
import sys
import threading
import time
import traceback
import unicodedata  # noqa: F401

ID = 'C14'
LEVEL = 'exploration'
TECHNIQUE = 'schedule controller (sys.monitoring local PY_START/PY_RETURN events gate the grader and the interrupted student thread at the functions where they touch shared sandbox state) + event-log/state oracle at return and at quiescence + differential check of the next executions against a fresh sandbox'
LEVEL_TEXT = ('Held on the runs observed: for each slow/non-terminating student program x entry point x named interleaving, a real '
              'threaded execution times out while a controller forces the order in which the grader thread and the abandoned student '
              'thread reach _stop_mocking/_stop_patches/_capture_exception/_start_mocking (zombie-first, grader-first, zombie during '
              'the next execution, zombie after the next execution) plus unforced runs, the student\'s code ending just as the limit expires, '
              'and the limit expiring while the student thread is still preparing the execution (held at _execute, _start_mocking, '
              '_start_patches, the limit guard, the start of each tracer until the grader has given up); the oracle checks, at return AND after the '
              'abandoned thread has finished: the call returned, get_exception() is a TimeoutError, exactly one new runtime feedback, '
              'borrowed process state restored and stacks empty, and the following executions produce exactly the output, result and '
              'exception a fresh sandbox produces. Evidence lists the distinct cross-thread event orders seen.')
LEVEL_NOTE = ('Gates are bounded waits; a gate that expires makes the run inconclusive, never a violation. Wall-clock is only a '
              'watchdog (the call must return; how fast is not judged beyond allowed_time + 5 s). A student thread that swallows the '
              'injected SystemExit forever cannot be stopped by any thread-based design and is driven with a finite number of swallows.')
RULE = ('Run = (program, entry point, interleaving, allowed_time, next-execution kind). Distinct = distinct tuple; non-trivial = the '
        'abandoned thread reached its handler (or is known never to) and the forced order was confirmed in the event log.')
ASSUMPTIONS = ['sys.monitoring callbacks run in the thread that executes the instrumented function, so blocking inside them holds exactly that thread',
               'the controller only delays threads at function boundaries that exist in the code; it creates no order the GIL could not produce']
SHARDS = {'quick': 16, 'thorough': 32}
BUDGET = {'quick': 60, 'thorough': 900}
MIN_NONTRIVIAL = {'quick': 30, 'thorough': 300}
REQUIRED_COUNTERS = {'quick': ['timeouts_observed', 'forced_orders_confirmed'], 'thorough': ['timeouts_observed', 'forced_orders_confirmed']}

TOOL = 4
GATE_TIMEOUT = 6.0

PROGRAMS = {
    'busy-loop': "n = 0\nwhile True:\n    n += 1\n",
    'print-loop': "n = 0\nwhile True:\n    n += 1\n    if n % 2000 == 0:\n        print('tick', n)\n",
    'print-first-then-loop': "print('started')\nwhile True:\n    pass\n",
    'swallow-then-finish': "try:\n    while True:\n        pass\nexcept BaseException:\n    swallowed = True\nprint('survived')\n",
    'finite-but-long': "total = 0\nfor i in range(10 ** 9):\n    total += i\nprint(total)\n",
    'block-with-timeout': "import threading\nev = threading.Event()\nev.wait(0.6)\nwhile True:\n    pass\n",
    'nested-function-loop': "def spin(n):\n    while True:\n        n += 1\ndef outer():\n    return spin(0)\nouter()\n",
    'loop-in-try-finally': "try:\n    while True:\n        pass\nfinally:\n    done = True\n",
    # one call into the interpreter's C code that takes many times the limit and never gives the interpreter lock back
    # (how many: see long_call_size(); it is to take about 1.2 s on the machine the check runs on, four times the longest limit used)
    # the program's own exception class describes itself with a loop that never ends (pedal asks for that text while it records
    # the failure)
    'endless-loop-in-the-__str__-of-its-exception': "class Stuck(Exception):\n    def __str__(self):\n        while True:\n            pass\nraise Stuck('x')\n",
    'one-long-builtin-call': "total = sum(range(LONG_CALL_SIZE))\nprint('total is', total)\n",
}
BLOCK_FOREVER = "import threading\nlock = threading.Lock()\nlock.acquire()\nlock.acquire()\n"

ENTRIES = ['run', 'call', 'evaluate', 'import']
INTERLEAVINGS = ['unforced', 'zombie-first', 'grader-first', 'zombie-during-next', 'zombie-after-next', 'outer-interrupt-before-inner',
                 'zombie-between-numbering-and-recording-of-next']
HISTORIES = ['fresh', 'two-earlier-runs', 'earlier-runs-then-clear_context']
NEXT_KINDS = ['run-print', 'call-add', 'evaluate-expr', 'run-threaded', 'run-input', 'run-long', 'run-times-out-again']


_LONG_CALL_SIZE = []


def long_call_size():
    if not _LONG_CALL_SIZE:
        best = None
        for _ in range(3):
            t0 = time.perf_counter()
            sum(range(2 * 10 ** 6))
            dt = time.perf_counter() - t0
            best = dt if best is None else min(best, dt)
        _LONG_CALL_SIZE.append(max(10 ** 7, int(2 * 10 ** 6 * 1.2 / max(best, 1e-4))))
    return _LONG_CALL_SIZE[0]


def student_files(prog, entry, late=None):
    body = PROGRAMS.get(prog, BLOCK_FOREVER)
    if 'LONG_CALL_SIZE' in body:
        body = body.replace('LONG_CALL_SIZE', str(long_call_size()))
    helpers = "def add(a, b):\n    print('adding', a, b)\n    return a + b\n\n"
    if entry == 'run':
        return {'answer.py': helpers + body}
    if entry in ('call', 'evaluate'):
        ind = '\n'.join(('    ' + l) if l else l for l in body.rstrip('\n').split('\n'))
        return {'answer.py': helpers + 'def slow():\n' + ind + '\n    return 1\n'}
    if entry == 'import':
        if late:
            # the other file is imported when most of the main file's own time is used up: the thread importing it has a limit
            # of its own, counted from then, so that limit alone ends it long after the grader's has expired (seeded C14-19)
            wait = 'import time\n_began = time.time()\nwhile time.time() - _began < %r:\n    pass\n' % late
            return {'answer.py': helpers + wait + 'import helper\nprint("imported")\n', 'helper.py': body}
        return {'answer.py': helpers + 'import helper\nprint("imported")\n', 'helper.py': body}
    raise ValueError(entry)


# ----------------------------------------------------------------------------------------------------------
# schedule controller
# ----------------------------------------------------------------------------------------------------------

class Controller:
    def __init__(self):
        self.cv = threading.Condition()
        self.counts = {}
        self.log = []
        self.holds = []        # (role, fn, ev, nth, until_key, until_n)
        self.roles = {}
        self.expired = []
        self.zombie_threads = []
        self.active = False
        self.extra = False

    def role(self):
        t = threading.current_thread()
        if t is threading.main_thread():
            return 'G'
        r = self.roles.get(t.ident)
        if r is None:
            r = 'Z%d' % (len(self.roles) + 1)
            self.roles[t.ident] = r
            self.zombie_threads.append(t)
        return r

    def event(self, fn, ev):
        if not self.active or (fn in EXTRA_NAMES and not self.extra):
            return
        role = self.role()
        key = (role, fn, ev)
        with self.cv:
            n = self.counts.get(key, 0) + 1
            self.counts[key] = n
            self.log.append('%s:%s:%s' % key)
            self.cv.notify_all()
            for (hr, hf, he, hn, until, un) in self.holds:
                if (hr, hf, he) == key and hn == n:
                    ok = self.cv.wait_for(lambda: self.satisfied(until, un) or not self.active, timeout=GATE_TIMEOUT)
                    if not ok:
                        self.expired.append('%s held at %s:%s#%d waiting for %s' % (role, fn, ev, n, until))
                    self.log.append('%s:released-after:%s' % (role, until if isinstance(until, str) else ':'.join(until)))

    def satisfied(self, until, n):
        if isinstance(until, str):      # a named flag
            return self.counts.get(('flag', until, ''), 0) >= n
        return self.counts.get(until, 0) >= n

    def flag(self, name):
        with self.cv:
            self.counts[('flag', name, '')] = self.counts.get(('flag', name, ''), 0) + 1
            self.log.append('flag:' + name)
            self.cv.notify_all()

    def wait(self, key, n=1, timeout=GATE_TIMEOUT):
        with self.cv:
            return self.cv.wait_for(lambda: self.satisfied(key, n), timeout=timeout)

    def seen(self, key):
        return self.counts.get(key, 0)


_CTL = [None]
EXTRA_NAMES = set()
_THREADS_BEFORE_STEP = set()
_WARMED_UP = []
_INSTALLED = [False]
_HAS_ABANDON = [False]
_CONTAMINATED = [False]


def zombie_handler_fn():
    """the function through which the student thread enters the code that touches shared sandbox state
    (held BEFORE it takes any lock the code itself uses)"""
    from pedal.sandbox.sandbox import Sandbox
    return '_finish_execution' if hasattr(Sandbox, '_finish_execution') else '_stop_mocking'


def install_monitoring():
    if _INSTALLED[0]:
        return
    from pedal.sandbox.sandbox import Sandbox
    from pedal.sandbox.timeout import InterruptableThread
    mon = sys.monitoring
    mon.use_tool_id(TOOL, 'verif-c14')
    names = {}
    for cls, fns in ((Sandbox, ['_execute_with_timeout', '_execute', '_start_mocking', '_stop_mocking', '_stop_patches',
                                '_capture_exception', 'append_output', '_import', '_finish_execution']),
                     (InterruptableThread, ['terminate', 'run', '_async_raise'])):
        for fn in fns:
            if not hasattr(cls, fn):
                continue
            code = getattr(cls, fn).__code__
            names[code] = fn
            mon.set_local_events(TOOL, code, mon.events.PY_START | mon.events.PY_RETURN)

    # the steps with which the student's thread prepares an execution (only looked at by the 'preparing' cases)
    import pedal.sandbox.sandbox as _sandbox_module
    import pedal.sandbox.tracer as _tracer_module
    extra = [(Sandbox, '_start_patches', '_start_patches'), (getattr(_sandbox_module, '_RecursionLimitGuard', None), 'start', 'limit_guard_start'),
             (_tracer_module.SandboxNativeTracer, '__enter__', 'native_trace_enter'), (_tracer_module.SandboxCallTracer, '__enter__', 'calls_trace_enter')]
    try:
        import coverage.collector as _collector
        extra.append((_collector.Collector, 'start', 'coverage_measurement_start'))
    except Exception:
        pass
    for cls, fn, label in extra:
        if cls is None or not hasattr(cls, fn):
            continue
        code = getattr(cls, fn).__code__
        names[code] = label
        EXTRA_NAMES.add(label)
        mon.set_local_events(TOOL, code, mon.events.PY_START | mon.events.PY_RETURN)

    import types as _types
    for const in Sandbox._execute_with_timeout.__code__.co_consts:
        if isinstance(const, _types.CodeType) and const.co_name == 'abandon_execution':
            names[const] = 'abandon_execution'
            mon.set_local_events(TOOL, const, mon.events.PY_START | mon.events.PY_RETURN)
            _HAS_ABANDON[0] = True

    def on_start(code, off):
        c = _CTL[0]
        if c is not None and code in names:
            c.event(names[code], 'start')

    def on_return(code, off, retval):
        c = _CTL[0]
        if c is not None and code in names:
            c.event(names[code], 'return')

    def on_unwind(code, off, exc):
        c = _CTL[0]
        if c is not None and code in names:
            c.event(names[code], 'unwind')
    mon.register_callback(TOOL, mon.events.PY_START, on_start)
    mon.register_callback(TOOL, mon.events.PY_RETURN, on_return)
    mon.register_callback(TOOL, mon.events.PY_UNWIND, on_unwind)
    mon.set_events(TOOL, mon.events.PY_UNWIND)      # unwind cannot be a local event
    _INSTALLED[0] = True


# ----------------------------------------------------------------------------------------------------------
# observations
# ----------------------------------------------------------------------------------------------------------

def unwrap(x):
    try:
        from pedal.sandbox.result import is_sandbox_result
        if is_sandbox_result(x):
            return object.__getattribute__(x, 'value')
    except Exception:
        pass
    return x


def runtime_feedbacks(report):
    return [f for f in report.feedback if str(f.category or '').lower() == 'runtime']


def do_next(sbx, kind):
    """one later execution; returns a comparable record"""
    try:
        return _do_next(sbx, kind)
    except Exception as e:
        return {'raw': None, 'lines': None, 'result': None, 'exception': None, 'execution_record': None,
                'the call itself raised': '%s: %s' % (type(e).__name__, str(e)[:120])}


def _do_next(sbx, kind):
    sbx.clear_output()
    res = None
    if kind == 'run-times-out-again':
        # another program that never ends, under a short limit of its own
        _THREADS_BEFORE_STEP.clear()
        _THREADS_BEFORE_STEP.update(t.name for t in threading.enumerate())
        sandbox = sbx.get_sandbox()
        saved = sandbox.allowed_time
        sandbox.allowed_time = 0.1
        try:
            sbx.run(code="print('again')\nwhile True:\n    pass", threaded=True)
        finally:
            sandbox.allowed_time = saved
        exc = unwrap(sbx.get_exception())
        record = {'raw': sbx.get_raw_output(), 'lines': list(sbx.get_output()), 'result': None,
                  'exception': type(exc).__name__ if exc is not None else None, 'execution_record': None}
        # (its thread is given the time to end: it belongs to this step, not to whatever is looked at next)
        end = time.time() + 3
        while time.time() < end and any(t.is_alive() and t.name not in _THREADS_BEFORE_STEP for t in threading.enumerate()
                                        if type(t).__name__ == 'InterruptableThread'):
            time.sleep(0.01)
        return record
    if kind == 'run-print':
        sbx.run(code="print('next one')\nprint('two')", threaded=False)
    elif kind == 'call-add':
        res = sbx.call('add', 2, 3, threaded=False)
    elif kind == 'evaluate-expr':
        res = sbx.evaluate('add(10, 5) * 2', threaded=False)
    elif kind == 'run-threaded':
        # (under a limit of its own that is not in doubt: setting a measurement up alone can take a tenth of a second)
        sandbox = sbx.get_sandbox()
        saved = sandbox.allowed_time
        sandbox.allowed_time = 5
        try:
            sbx.run(code="print('threaded next')", threaded=True)
        finally:
            sandbox.allowed_time = saved
    elif kind == 'run-long':
        # long enough (tens of milliseconds) for a thread that is still running to get scheduled while this one is captured
        sbx.run(code="print('long start')\nacc = 0\nfor i in range(400000):\n    acc += i\nprint('long end', acc)", threaded=False)
    elif kind == 'run-input':
        sbx.run(code="v = input('n? ')\nprint('got', v)", inputs=['41'], threaded=False)
    exc = unwrap(sbx.get_exception())
    record = None
    if res is not None:
        # the result must lead back to the record of the execution that produced it
        try:
            sandbox = sbx.get_sandbox()
            cid = object.__getattribute__(res, '_actual_context_id')
            c = sandbox.get_context(cid)[-1]
            record = [c.kind, c.called, (c.code or '')[:40]]
        except Exception as e:
            record = 'lookup failed: %s' % type(e).__name__
    return {'raw': sbx.get_raw_output(), 'lines': list(sbx.get_output()), 'result': repr(unwrap(res)) if res is not None else None,
            'exception': type(exc).__name__ if exc is not None else None, 'execution_record': record}


def apply_history(sbx, sandbox, hist):
    if hist != 'fresh':
        # the sandbox has a past: earlier executions, possibly forgotten again with clear_context()
        sbx.run(code="print('earlier one')", threaded=False)
        sbx.run(code="earlier = 2", threaded=False)
        if hist == 'earlier-runs-then-clear_context':
            sandbox.clear_context()
        sbx.clear_output()


def fresh_reference(files, kinds, hist='fresh'):
    from props import sbx_common as sc
    from pedal.sandbox import commands as sbx
    # the helper functions must exist: run only the helper part of the student file
    helper_only = {'answer.py': files['answer.py'].split('\n\n')[0] + '\n'}
    sandbox, report = sc.new_sandbox(helper_only)
    sandbox.allowed_time = 5
    sbx.run()
    apply_history(sbx, sandbox, hist)        # same past, minus the execution that times out
    return [do_next(sbx, k) for k in kinds]


def settle(ctx, seconds=4.0):
    """student threads of the previous case (a zombie that is still unwinding) would be mistaken for this case's: wait for them"""
    end = time.time() + seconds
    while time.time() < end:
        left = [t for t in threading.enumerate() if t is not threading.main_thread() and not t.name.startswith('verif-')]
        if not left:
            return True
        time.sleep(0.01)
    ctx.count('cases_started_with_an_older_student_thread_still_alive')
    return False


def run_case(ctx, case):
    from props import sbx_common as sc
    from pedal.sandbox import commands as sbx
    install_monitoring()
    settle(ctx)
    prog, entry, inter, allowed, nexts = case['program'], case['entry'], case['interleaving'], case['allowed_time'], case['next']
    files = student_files(prog, entry, late=case.get('import_after'))
    want_next = fresh_reference(files, nexts, case.get('history', 'fresh'))
    # (a grader that keeps each submission's report to herself: every command is then given that report)
    sandbox, report = sc.new_sandbox(files, case.get('tracer', 'none'), own_report=case.get('report') == 'own')
    sbx = sc.commands_in_use()
    ctx.seen('reports', case.get('report', 'default'))
    ctx.seen('tracers', case.get('tracer', 'none'))
    sandbox.allowed_time = allowed
    if entry in ('call', 'evaluate'):
        sbx.run(threaded=False)
        if sbx.get_exception() is not None:
            ctx.inconclusive('setup run failed for %s' % prog)
            return
    hist = case.get('history', 'fresh')
    apply_history(sbx, sandbox, hist)
    ctx.seen('histories', hist)
    n_rt_before = len(runtime_feedbacks(report))
    real_out = io.StringIO()
    saved_stdout = sys.stdout
    sys.stdout = real_out          # whatever reaches the process's stdout from now on is a leak (or the zombie's own text)
    snap = sc.Snapshot(sandbox)
    ctl = Controller()
    threads_before = set(threading.enumerate())
    Z = 'Z1' if entry != 'import' else 'Z2'        # the thread that actually runs the slow code
    # for import there are two student threads: Z1 runs _execute (waiting in timeout() for Z2 which runs _import)
    ZH = zombie_handler_fn()
    if inter == 'zombie-first':
        ctl.holds.append(('G', 'terminate', 'return', 1, 'zombie-done', 1))
    elif inter == 'grader-first':
        ctl.holds.append(('Z1', ZH, 'start', 1, 'grader-returned', 1))
    elif inter == 'zombie-during-next':
        ctl.holds.append(('Z1', ZH, 'start', 1, ('G', '_start_mocking', 'return'), 1))
        ctl.holds.append(('G', '_start_mocking', 'return', 1, 'zombie-done', 1))
    elif inter == 'zombie-after-next':
        ctl.holds.append(('Z1', ZH, 'start', 1, 'next-returned', 1))
    elif inter == 'zombie-between-numbering-and-recording-of-next':
        # the next call()/evaluate() has taken its execution number but not yet created its record when the abandoned thread gets
        # to finish (the grader is inside _execute for the 2nd time: the 1st was the timed-out execution itself)
        ctl.holds.append(('Z1', ZH, 'start', 1, ('G', '_execute', 'start'), 2))
        ctl.holds.append(('G', '_execute', 'start', 2, 'zombie-done', 1))
    elif inter == 'outer-interrupt-before-inner':
        # multi-file submissions: the thread running the main file (Z1) waits, with its own time limit, for the thread that
        # imports the helper file (Z2). Both limits expire together; here the grader's interrupt reaches Z1 just before Z1
        # gets to interrupt Z2.
        ctl.holds.append(('Z1', 'terminate', 'start', 1, ('G', 'terminate', 'return'), 1))
    _CTL[0] = ctl
    ctl.active = True
    # watcher: raises the flag 'zombie-done' when the abandoned thread has left _execute (or died)
    stop_watch = threading.Event()

    def watcher():
        while not stop_watch.is_set():
            done = ctl.seen(('Z1', '_execute', 'return')) or ctl.seen(('Z1', '_execute', 'unwind')) or \
                (ctl.zombie_threads and not ctl.zombie_threads[0].is_alive() and ctl.seen(('G', 'terminate', 'return')))
            if done:
                ctl.flag('zombie-done')
                return
            time.sleep(0.005)
    wt = threading.Thread(target=watcher, daemon=True, name='verif-watcher')
    wt.start()
    t0 = time.time()
    raised = None
    returned = threading.Event()
    main_ident = threading.main_thread().ident

    def hang_watchdog():
        # the grader thread has not come back long after the limit: decide from WHERE it is stuck, not from the clock
        if returned.wait((allowed + 15 + (GATE_TIMEOUT if inter != 'unforced' else 0)) if prog != 'endless-loop-in-the-__str__-of-its-exception' else allowed + 4):
            return
        frame = sys._current_frames().get(main_ident)
        stack = traceback.extract_stack(frame) if frame is not None else []
        if prog == 'endless-loop-in-the-__str__-of-its-exception' and [f for f in stack if f.name == 'abandon_execution']:
            # the grader's thread is waiting for the lock that the student's thread holds while it runs the program's __str__
            ctx.case(case_label(case))
            ctx.count('timeouts_observed')
            ctx.violation('C14|call-does-not-return|grader-waits-for-the-lock-held-while-the-programs-own-__str__-runs|%s' % entry, public(case),
                          'the threaded call has not returned %.0fs after a %.2fs limit; the grader thread is inside %s' %
                          (time.time() - t0, allowed, ' > '.join('%s:%s:%d' % (f.filename.split('/')[-1], f.name, f.lineno) for f in stack[-4:])))
            ctx.emergency_dump_and_exit()
        in_pedal_timeout = [f for f in stack if f.filename.endswith('pedal/sandbox/timeout.py')]
        unbounded_join = [f for f in stack if f.filename.endswith('threading.py') and f.name == 'join']
        where = ' > '.join('%s:%s:%d' % (f.filename.split('/')[-1], f.name, f.lineno) for f in stack[-6:])
        if in_pedal_timeout and unbounded_join and not ctl.expired:
            ctx.case(case_label(case))
            ctx.violation('C14|call-does-not-return|grader-waits-for-the-student-thread|%s' % inter, public(case),
                          'the threaded call has not returned %.0fs after a %.2fs limit; the grader thread is inside %s' % (time.time() - t0, allowed, where))
        else:
            ctx.inconclusive('watchdog: threaded call still running after %.0fs, grader at %s (%s)' % (time.time() - t0, where, case_label(case)))
        ctx.emergency_dump_and_exit()
    threading.Thread(target=hang_watchdog, daemon=True, name='verif-watchdog').start()
    try:
        try:
            if case.get('threaded_via') == 'attribute':
                # the documented switch: every execution of this sandbox - including its imports of other student files,
                # which then run in a thread of their own, with their own time limit - is threaded
                sandbox.threaded = True
                if entry in ('run', 'import'):
                    sbx.run()
                elif entry == 'call':
                    sbx.call('slow')
                else:
                    sbx.evaluate('slow()')
                sandbox.threaded = False
            elif entry in ('run', 'import'):
                sbx.run(threaded=True)
            elif entry == 'call':
                sbx.call('slow', threaded=True)
            else:
                sbx.evaluate('slow()', threaded=True)
        except BaseException as e:
            raised = e
        wall = time.time() - t0
        returned.set()
        ctl.flag('grader-returned')
        at_return = observe(sandbox, report, snap, n_rt_before, sbx)
        never_handles = prog == 'block-forever'
        # ---- next executions ---------------------------------------------------------------------------
        got_next = []
        nexts_done = 0
        if inter in ('zombie-during-next', 'zombie-after-next', 'unforced', 'zombie-between-numbering-and-recording-of-next'):
            # the abandoned thread is (possibly) still pending while the next execution runs
            got_next.append(do_next(sbx, nexts[0]))
            nexts_done = 1
            ctl.flag('next-returned')
        # ---- quiescence --------------------------------------------------------------------------------
        quiesced = True
        if not never_handles:
            quiesced = ctl.wait('zombie-done', 1, timeout=GATE_TIMEOUT + 4)
        at_quiescence = observe(sandbox, report, snap, n_rt_before, sbx)
        for k in nexts[nexts_done:]:
            got_next.append(do_next(sbx, k))
        after_all = observe(sandbox, report, snap, n_rt_before, sbx, count_feedback=False)
    finally:
        sys.stdout = saved_stdout
        ctl.active = False
        with ctl.cv:
            ctl.cv.notify_all()
        stop_watch.set()
        _CTL[0] = None
    leaked_real = real_out.getvalue()
    # ---- student threads that were never interrupted (they cannot be stopped from here: what they print lands in whatever
    # is captured next, so this worker's later cases would be judged on polluted output - it stops after this case) -------
    never_interrupted = []
    if prog not in ('block-forever', 'swallow-then-finish'):
        grace = time.time() + 1.5
        while time.time() < grace:
            never_interrupted = [t for t in threading.enumerate() if t not in threads_before and not t.name.startswith('verif-')
                                 and t is not threading.current_thread()]
            if not never_interrupted:
                break
            time.sleep(0.02)
    if never_interrupted:
        ctx.count('student_threads_still_running_after_the_timeout')
        _CONTAMINATED[0] = True
    # ---------------------------------------------------------------------------------------------------
    ctx.count('timeouts_observed')
    ctx.seen('programs', prog)
    ctx.seen('entries', entry)
    ctx.seen('interleavings', inter)
    order = order_signature(ctl.log)
    ctx.seen('cross_thread_event_orders', order)
    if ctl.expired:
        ctx.count('gate_expired')
        ctx.undecided('gate expired: %s (%s)' % (ctl.expired[0], case_label(case)))
        return
    n_violations_before = sum(v['count'] for v in ctx.violations.values())
    forced_ok = confirm_order(inter, ctl.log, entry)
    if not quiesced:
        # the abandoned thread is still running long after it was interrupted. What it does to the later executions is judged
        # below like in any other case (their output and results, the real stdout); only if none of that shows anything is the
        # case left undecided
        ctx.count('abandoned_threads_still_running_at_the_watchdog')
    elif inter != 'unforced':
        if forced_ok:
            ctx.count('forced_orders_confirmed')
        elif not never_handles:
            ctx.undecided('forced order %s not confirmed in the event log (%s): %s' % (inter, case_label(case), order))
            return
    ctx.case(case_label(case))
    cs = public(case)
    fam = 'program=%s' % program_family(prog)
    if raised is not None:
        ctx.violation('C14|call-raised|%s|%s' % (type(raised).__name__, entry), cs, traceback.format_exception_only(type(raised), raised)[-1][:300])
        return
    if prog == 'one-long-builtin-call' and wall <= 2 * allowed:
        ctx.undecided('the long operation did not take several times the limit on this machine (%.2fs, limit %.2fs)' % (wall, allowed))
        return
    if prog == 'one-long-builtin-call' and at_return['exception'] is None and at_return['new_runtime'] == 0:
        # the execution took several times the limit and was then treated as one that ended in time
        ctx.violation('C14|limit-not-enforced|program=single-long-C-level-operation|%s' % entry, cs,
                      {'allowed_time': allowed, 'the call returned after (s)': round(wall, 2), 'get_exception()': at_return['exception'],
                       'new runtime feedbacks': at_return['new_runtime'], 'events': order})
        return
    if wall > allowed + 5 + (GATE_TIMEOUT if inter != 'unforced' else 0):
        ctx.undecided('watchdog: call took %.1fs for allowed_time %.2f (%s)' % (wall, allowed, case_label(case)))
    for when, ob in (('at-return', at_return), ('at-quiescence', at_quiescence)):
        if when == 'at-quiescence' and nexts_done:
            pass    # a later execution has already (legitimately) replaced the recorded exception
        elif ob['exception'] != 'TimeoutError':
            ctx.violation('C14|exception-not-timeout|%s|%s|%s' % (when, inter, ob['exception']), cs,
                          'get_exception() is %s %s' % (ob['exception'], when))
        if ob['new_runtime'] != 1:
            ctx.violation('C14|runtime-feedback-count-%d|%s|%s' % (ob['new_runtime'], when, inter), cs,
                          'new runtime feedbacks %s: %s' % (when, ob['runtime_titles']))
        elif ob['runtime_names'] != ['TimeoutError']:
            ctx.violation('C14|runtime-feedback-not-timeout|%s|%s' % (when, inter), cs, ob['runtime_names'])
    # patch state: at return the abandoned thread may legitimately still be inside student code, but nothing of the
    # sandbox's borrowed state may be left; at quiescence and after the next executions likewise
    for when, ob in (('at-return', at_return), ('at-quiescence', at_quiescence), ('after-next-executions', after_all)):
        for what, detail in ob['diffs']:
            ctx.violation('C14|patch-state|%s|%s|%s' % (what, when, inter), cs, {'what': what, 'detail': detail, 'events': order})
    for i, (want, got) in enumerate(zip(want_next, got_next)):
        if want != got:
            field = next(k for k in want if want[k] != got[k])
            ctx.violation('C14|next-execution-altered|%s|%s|%s' % (field, inter, fam), cs,
                          {'next': nexts[i], 'position': i, 'fresh sandbox': want, 'this sandbox': got, 'events': order})
            break
    if never_interrupted and leaked_real:
        ctx.violation('C14|student-thread-never-interrupted-and-keeps-printing|%s|%s|%s' % (entry, inter, case.get('threaded_via', 'argument')), cs,
                      {'threads still running 1.5 s after the call returned': [t.name for t in never_interrupted],
                       'their text on the process stdout (and in whatever execution is captured while they run)': leaked_real[:120], 'events': order})
    if leaked_real and 'tick' not in leaked_real and 'started' not in leaked_real and 'survived' not in leaked_real:
        ctx.violation('C14|next-execution-wrote-to-real-stdout|%s' % inter, cs, leaked_real[:200])
    elif leaked_real:
        ctx.count('abandoned_thread_output_on_real_stdout_(student text, not judged)')
    if not quiesced and sum(v['count'] for v in ctx.violations.values()) == n_violations_before:
        ctx.undecided('abandoned thread did not finish within the watchdog, and nothing it did was observed (%s)' % case_label(case))
    if ctx.evaluations % 7 == 0:
        ctx.sample({'case': cs, 'event_order': order, 'at_return': at_return, 'at_quiescence': at_quiescence,
                    'next': got_next[:2], 'wall_s': round(wall, 2)})


FINITE = {
    'ends-normally': ("x = 1\nprint('done')\n", None),
    'ends-silently': ("x = 1\n", None),
    'ends-with-error': ("print('before')\ny = 1 / 0\n", 'ZeroDivisionError'),
    'ends-with-exit': ("import sys\nprint('bye')\nsys.exit(0)\n", 'SystemExit'),
}


def run_deadline_case(ctx, case):
    """The student's code ends just as the limit expires: the student thread is held inside pedal's own end-of-execution
    work (at _stop_mocking, i.e. under whatever lock the code takes there) until the grader thread has decided that the time
    is up. Either reading of the race is acceptable (finished, or timed out) - but the call returns, there is at most one
    runtime feedback and it agrees with get_exception(), nothing stays patched, and later executions are unaffected."""
    from props import sbx_common as sc
    from pedal.sandbox import commands as sbx
    install_monitoring()
    settle(ctx)
    prog, entry, allowed, nexts = case['program'], case['entry'], case['allowed_time'], case['next']
    body, own_exc = FINITE[prog]
    helpers = "def add(a, b):\n    print('adding', a, b)\n    return a + b\n\n"
    if entry == 'run':
        files = {'answer.py': helpers + body}
    else:
        ind = '\n'.join(('    ' + l) if l else l for l in body.rstrip('\n').split('\n'))
        files = {'answer.py': helpers + 'def slow():\n' + ind + '\n    return 1\n'}
    want_next = fresh_reference(files, nexts)
    sandbox, report = sc.new_sandbox(files)
    sandbox.allowed_time = allowed
    if entry != 'run':
        sbx.run(threaded=False)
    n_rt_before = len(runtime_feedbacks(report))
    real_out = io.StringIO()
    saved_stdout = sys.stdout
    sys.stdout = real_out
    snap = sc.Snapshot(sandbox)
    ctl = Controller()
    variant = case.get('variant', 'inside-its-own-finish')
    start_after_activation = []
    if variant == 'inside-its-own-finish':
        decided = ('G', 'abandon_execution', 'start') if _HAS_ABANDON[0] else ('G', 'terminate', 'start')
        held_at = '_stop_mocking'
        ctl.holds.append(('Z1', '_stop_mocking', 'start', 1, decided, 1))
    elif variant == 'between-lookup-and-interrupt':
        # the student's thread ends after the grader has found it among the live threads, but before the interpreter is asked to
        # interrupt it: the interrupt is addressed to a thread that no longer exists
        if not _HAS_ABANDON[0] or zombie_handler_fn() != '_finish_execution' or not hasattr(__import__('pedal.sandbox.timeout', fromlist=['x']).InterruptableThread, '_async_raise'):
            ctx.count('deadline_variant_not_applicable_to_this_tree')
            sys.stdout = saved_stdout
            return
        decided = ('G', '_async_raise', 'start')
        held_at = '_finish_execution'
        ctl.holds.append(('Z1', '_finish_execution', 'start', 1, decided, 1))
        ctl.holds.append(('G', '_async_raise', 'start', 1, 'student-thread-ended', 1))

        def ended_watcher():
            end = time.time() + GATE_TIMEOUT
            while time.time() < end and ctl.active:
                if ctl.zombie_threads and not ctl.zombie_threads[0].is_alive() and ctl.seen(('G', '_async_raise', 'start')):
                    time.sleep(0.05)         # the interpreter's own record of the thread goes right after
                    ctl.flag('student-thread-ended')
                    return
                time.sleep(0.005)
        start_after_activation.append(ended_watcher)
    else:
        # 'between-disown-and-interrupt': the student's code ends after the grader has disowned the execution but before the
        # grader interrupts the thread, so the interrupt finds a thread that is already gone
        if not _HAS_ABANDON[0] or zombie_handler_fn() != '_finish_execution':
            ctx.count('deadline_variant_not_applicable_to_this_tree')
            sys.stdout = saved_stdout
            return
        decided = ('G', 'abandon_execution', 'return')
        held_at = '_finish_execution'
        ctl.holds.append(('Z1', '_finish_execution', 'start', 1, decided, 1))
        ctl.holds.append(('G', 'abandon_execution', 'return', 1, ('Z1', '_execute', 'return'), 1))
    _CTL[0] = ctl
    ctl.active = True
    for fn in start_after_activation:
        threading.Thread(target=fn, daemon=True, name='verif-ended-watcher').start()
    raised = None
    returned = threading.Event()
    main_ident = threading.main_thread().ident
    t0 = time.time()

    def hang_watchdog():
        if returned.wait(allowed + 25):
            return
        frame = sys._current_frames().get(main_ident)
        stack = traceback.extract_stack(frame) if frame is not None else []
        where = ' > '.join('%s:%s:%d' % (f.filename.split('/')[-1], f.name, f.lineno) for f in stack[-6:])
        if [f for f in stack if f.filename.endswith('pedal/sandbox/timeout.py')] and not ctl.expired:
            ctx.case(deadline_label(case))
            ctx.violation('C14|call-does-not-return|student-finishing-at-the-limit', public(case),
                          'the threaded call has not returned %.0fs after a %.2fs limit; the grader thread is inside %s' % (time.time() - t0, allowed, where))
        else:
            ctx.inconclusive('watchdog: deadline case still running, grader at %s (%s)' % (where, deadline_label(case)))
        ctx.emergency_dump_and_exit()
    threading.Thread(target=hang_watchdog, daemon=True, name='verif-watchdog').start()
    try:
        try:
            if entry == 'run':
                sbx.run(threaded=True)
            elif entry == 'call':
                sbx.call('slow', threaded=True)
            else:
                sbx.evaluate('slow()', threaded=True)
        except BaseException as e:
            raised = e
        returned.set()
        at_return = observe(sandbox, report, snap, n_rt_before, sbx)
        # quiescence: the student thread is gone
        deadline = time.time() + GATE_TIMEOUT + 4
        while time.time() < deadline and any(t.is_alive() for t in ctl.zombie_threads):
            time.sleep(0.01)
        quiesced = not any(t.is_alive() for t in ctl.zombie_threads)
        at_quiescence = observe(sandbox, report, snap, n_rt_before, sbx)
        got_next = [do_next(sbx, k) for k in nexts]
        after_all = observe(sandbox, report, snap, n_rt_before, sbx, count_feedback=False)
    finally:
        sys.stdout = saved_stdout
        ctl.active = False
        with ctl.cv:
            ctl.cv.notify_all()
        _CTL[0] = None
    ctx.count('deadline_races_driven')
    order = order_signature(ctl.log)
    ctx.seen('cross_thread_event_orders', order)
    if ctl.expired:
        ctx.undecided('gate expired: %s (%s)' % (ctl.expired[0], deadline_label(case)))
        return
    if not quiesced:
        ctx.undecided('student thread did not end (%s)' % deadline_label(case))
        return
    zs = idx(ctl.log, 'Z1:%s:start' % held_at)
    gd = idx(ctl.log, ':'.join(decided))
    zr = idx(ctl.log, 'Z1:released-after:' + ':'.join(decided))
    if zs is None or gd is None or zr is None or not (zs < gd < zr):
        ctx.undecided('deadline race not produced (%s): %s' % (deadline_label(case), order))
        return
    ctx.count('forced_orders_confirmed')
    ctx.count('timeouts_observed')
    ctx.seen('interleavings', 'student-finishing-at-the-limit/' + variant)
    ctx.seen('programs', prog)
    ctx.case(deadline_label(case))
    cs = public(case)
    if raised is not None:
        ctx.violation('C14|call-raised|%s|%s|student-finishing-at-the-limit/%s' % (type(raised).__name__, entry, variant), cs,
                      {'raised': traceback.format_exception_only(type(raised), raised)[-1][:300], 'events': order})
        return
    for when, ob in (('at-return', at_return), ('at-quiescence', at_quiescence)):
        acceptable = {'TimeoutError': ['TimeoutError'], own_exc: [own_exc] if own_exc else []}
        if ob['exception'] not in acceptable:
            ctx.violation('C14|deadline-race|exception-is-neither-timeout-nor-the-programs-own|%s' % when, cs,
                          {'get_exception': ob['exception'], 'program ends with': own_exc, 'events': order})
        elif ob['runtime_names'] != acceptable[ob['exception']]:
            ctx.violation('C14|deadline-race|runtime-feedback-count-%d|%s' % (ob['new_runtime'], when), cs,
                          {'get_exception': ob['exception'], 'runtime feedbacks': ob['runtime_names'], 'events': order})
    for when, ob in (('at-return', at_return), ('at-quiescence', at_quiescence), ('after-next-executions', after_all)):
        for what, detail in ob['diffs']:
            ctx.violation('C14|patch-state|%s|%s|student-finishing-at-the-limit/%s' % (what, when, variant), cs, {'what': what, 'detail': detail, 'events': order})
    for i, (want, got) in enumerate(zip(want_next, got_next)):
        if want != got:
            field = next(k for k in want if want[k] != got[k])
            ctx.violation('C14|next-execution-altered|%s|student-finishing-at-the-limit|program=%s' % (field, prog), cs,
                          {'next': nexts[i], 'fresh sandbox': want, 'this sandbox': got, 'events': order})
            break
    leaked = real_out.getvalue()
    if leaked:
        ctx.violation('C14|wrote-to-real-stdout|student-finishing-at-the-limit', cs, leaked[:200])
    if ctx.evaluations % 5 == 0:
        ctx.sample({'case': cs, 'event_order': order, 'at_return': at_return, 'at_quiescence': at_quiescence, 'next': got_next[:1]})


# ----------------------------------------------------------------------------------------------------------
# the time runs out while the student's thread is still PREPARING the execution (a starved thread, a very short limit)
# ----------------------------------------------------------------------------------------------------------
PREPARING = {
    # where the student's thread is when the grader gives up: (function, event, tracer it applies to)
    'before-it-began': ('_execute', 'start', None),
    'starting-to-mock': ('_start_mocking', 'start', None),
    'starting-the-patches': ('_start_patches', 'start', None),
    'starting-the-limit-guard': ('limit_guard_start', 'start', None),
    'starting-the-line-trace': ('native_trace_enter', 'start', 'native'),
    'starting-the-call-trace': ('calls_trace_enter', 'start', 'calls'),
    'starting-the-coverage-measurement': ('coverage_measurement_start', 'return', 'coverage'),
}


def measurements_left_running():
    """coverage.py keeps the measurements that were started and not ended on a stack of its own (the older one is resumed, in
    whichever thread ends the newer one): asked only when no student thread is alive any more"""
    collector = sys.modules.get('coverage.collector')
    return len(collector.Collector._collectors) if collector is not None else 0


def run_preparing_case(ctx, case):
    """The limit expires before the student's code has begun: the student's thread is held at one of the steps with which it
    prepares the execution until the grader has given up on it and interrupted it, so the interrupt lands right there. The call
    returns, reports exactly one timeout, leaves nothing patched or measuring, and later executions are unaffected."""
    from props import sbx_common as sc
    from pedal.sandbox import commands as sbx
    install_monitoring()
    settle(ctx)
    where, entry, allowed, nexts = case['where'], case['entry'], case['allowed_time'], case['next']
    fn, ev, tracer = PREPARING[where]
    tracer = tracer or case.get('tracer', 'none')
    if fn not in EXTRA_NAMES and fn not in ('_execute', '_start_mocking'):
        ctx.count('preparing_step_not_present_in_this_tree')
        return
    files = student_files('busy-loop', entry)
    want_next = fresh_reference(files, nexts)
    measuring_before = measurements_left_running()
    try:
        sandbox, report = sc.new_sandbox(files, tracer)
    except ImportError:
        ctx.count('tracer_unavailable')
        return
    sandbox.allowed_time = allowed
    if tracer == 'coverage':
        # (the first measurement in a process takes much longer than the others to set up: not during the timed one)
        if not _WARMED_UP:
            import coverage
            warm = coverage.Coverage()
            warm.start()
            warm.stop()
            _WARMED_UP.append(True)
    if entry != 'run':
        sandbox.allowed_time = 20
        sbx.run(code=files['answer.py'].split('def slow')[0] + 'def slow():\n    while True:\n        pass\n', threaded=False)
        sandbox.allowed_time = allowed
    n_rt_before = len(runtime_feedbacks(report))
    real_out = io.StringIO()
    saved_stdout = sys.stdout
    sys.stdout = real_out
    snap = sc.Snapshot(sandbox)
    ctl = Controller()
    ctl.extra = True
    ctl.holds.append(('Z1', fn, ev, 1, 'grader-gave-up', 1))

    def gave_up_watcher():
        # the grader has interrupted the thread - or (a tree in which the grader first waits for the thread to be done with the
        # step it is in) has been about to for a while
        end = time.time() + GATE_TIMEOUT
        about_to = None
        while time.time() < end and ctl.active:
            if ctl.seen(('G', '_async_raise', 'return')) or ctl.seen(('G', '_async_raise', 'unwind')):
                ctl.flag('grader-gave-up')
                return
            if about_to is None and (ctl.seen(('G', 'abandon_execution', 'start')) or ctl.seen(('G', 'terminate', 'start'))):
                about_to = time.time()
            if about_to is not None and time.time() - about_to > 0.5:
                ctl.flag('grader-gave-up')
                return
            time.sleep(0.002)
    _CTL[0] = ctl
    ctl.active = True
    threading.Thread(target=gave_up_watcher, daemon=True, name='verif-gave-up-watcher').start()
    raised = None
    returned = threading.Event()
    main_ident = threading.main_thread().ident
    t0 = time.time()

    def hang_watchdog():
        if returned.wait(allowed + 25):
            return
        frame = sys._current_frames().get(main_ident)
        stack = traceback.extract_stack(frame) if frame is not None else []
        at = ' > '.join('%s:%s:%d' % (f.filename.split('/')[-1], f.name, f.lineno) for f in stack[-6:])
        ctx.inconclusive('watchdog: preparing case still running, grader at %s (%s)' % (at, preparing_label(case)))
        ctx.emergency_dump_and_exit()
    threading.Thread(target=hang_watchdog, daemon=True, name='verif-watchdog').start()
    try:
        try:
            if entry == 'run':
                sbx.run(threaded=True)
            elif entry == 'call':
                sbx.call('slow', threaded=True)
            else:
                sbx.evaluate('slow()', threaded=True)
        except BaseException as e:
            raised = e
        returned.set()
        at_return = observe(sandbox, report, snap, n_rt_before, sbx)
        deadline = time.time() + GATE_TIMEOUT + 4
        while time.time() < deadline and any(t.is_alive() for t in ctl.zombie_threads):
            time.sleep(0.01)
        quiesced = not any(t.is_alive() for t in ctl.zombie_threads)
        at_quiescence = observe(sandbox, report, snap, n_rt_before, sbx)
        measuring = measurements_left_running() if quiesced else measuring_before
        got_next = []
        if raised is None and not at_quiescence['diffs']:
            got_next = [do_next(sbx, k) for k in nexts]
        after_all = observe(sandbox, report, snap, n_rt_before, sbx, count_feedback=False)
    finally:
        ctl.active = False
        with ctl.cv:
            ctl.cv.notify_all()
        _CTL[0] = None
        # keep whatever was left behind out of the following cases
        snap.restore()
        sandbox._current_patches.clear()
        sandbox._current_stdout.clear()
        sys.stdout = saved_stdout
    ctx.count('limits_expiring_during_preparation_driven')
    order = order_signature(ctl.log)
    ctx.seen('cross_thread_event_orders', order)
    label = preparing_label(case)
    if ctl.expired:
        ctx.undecided('gate expired: %s (%s)' % (ctl.expired[0], label))
        return
    if not quiesced:
        ctx.undecided('student thread did not end (%s)' % label)
        return
    # (the thread that is let go with the interrupt pending leaves the gate by that exception: what shows that it was held
    # there is that the grader gave up on it after it arrived and before it got any further)
    zs = idx(ctl.log, 'Z1:%s:%s' % (fn, ev))
    gd = idx(ctl.log, 'G:abandon_execution:start') if _HAS_ABANDON[0] else idx(ctl.log, 'G:terminate:start')
    z_next = next((i for i, e in enumerate(ctl.log) if zs is not None and i > zs and e.startswith('Z1:')), None)
    if zs is None or gd is None or not zs < gd or (z_next is not None and z_next < gd):
        ctx.undecided('the student thread was not at that step when the time ran out (%s): %s' % (label, ctl.log if __import__('os').environ.get('VERIF_DEBUG') else order))
        return
    ctx.count('forced_orders_confirmed')
    ctx.count('timeouts_observed')
    ctx.seen('interleavings', 'limit-expires-while-preparing/' + where)
    ctx.seen('tracers', tracer)
    ctx.case(label)
    cs = public(case)
    tail = 'limit-expires-while-preparing/%s' % where
    if raised is not None:
        ctx.violation('C14|call-raised|%s|%s|%s' % (type(raised).__name__, entry, tail), cs,
                      {'raised': traceback.format_exception_only(type(raised), raised)[-1][:300], 'events': order})
        return
    for when, ob in (('at-return', at_return), ('at-quiescence', at_quiescence)):
        if ob['exception'] != 'TimeoutError':
            ctx.violation('C14|exception-not-timeout|%s|%s|%s' % (when, tail, ob['exception']), cs, 'get_exception() is %s %s' % (ob['exception'], when))
        if ob['new_runtime'] != 1:
            ctx.violation('C14|runtime-feedback-count-%d|%s|%s' % (ob['new_runtime'], when, tail), cs, 'new runtime feedbacks %s: %s' % (when, ob['runtime_titles']))
        elif ob['runtime_names'] != ['TimeoutError']:
            ctx.violation('C14|runtime-feedback-not-timeout|%s|%s' % (when, tail), cs, ob['runtime_names'])
    for when, ob in (('at-return', at_return), ('at-quiescence', at_quiescence), ('after-next-executions', after_all)):
        for what, detail in ob['diffs']:
            ctx.violation('C14|patch-state|%s|%s|%s' % (what, when, tail), cs, {'what': what, 'detail': detail, 'events': order})
    if measuring != measuring_before:
        ctx.violation('C14|patch-state|coverage-measurement-left-running|at-quiescence|%s' % tail, cs,
                      {'measurements on coverage.py\'s stack before': measuring_before, 'after the student thread ended': measuring, 'events': order})
    for i, (want, got) in enumerate(zip(want_next, got_next)):
        if want != got:
            field = next(k for k in want if want[k] != got[k])
            ctx.violation('C14|next-execution-altered|%s|%s|program=busy-loop' % (field, tail), cs,
                          {'next': nexts[i], 'fresh sandbox': want, 'this sandbox': got, 'events': order})
            break
    leaked = real_out.getvalue()
    if leaked:
        ctx.violation('C14|wrote-to-real-stdout|%s' % tail, cs, leaked[:200])
    if ctx.evaluations % 5 == 0:
        ctx.sample({'case': cs, 'event_order': order, 'at_return': at_return, 'at_quiescence': at_quiescence, 'next': got_next[:1]})


def preparing_label(case):
    return 'preparing/%s/%s/%s/%.2f/%s' % (case['where'], case['entry'], case.get('tracer', 'none'), case['allowed_time'], ','.join(case['next']))


def deadline_label(case):
    return 'deadline/%s/%s/%s/%.2f/%s' % (case.get('variant', 'inside-its-own-finish'), case['program'], case['entry'], case['allowed_time'], ','.join(case['next']))


def observe(sandbox, report, snap, n_rt_before, sbx, count_feedback=True):
    exc = unwrap(sbx.get_exception())
    rts = runtime_feedbacks(report)[n_rt_before:]
    names = []
    for f in rts:
        try:
            names.append(f.fields.get('exception_name'))
        except Exception:
            names.append('?')
    # after later executions the count includes theirs: only the timeout execution's feedback is judged where asked
    return {'exception': type(exc).__name__ if exc is not None else None,
            'new_runtime': len(rts) if count_feedback else -1, 'runtime_names': names, 'runtime_titles': [str(f.title) for f in rts],
            'diffs': [(w, str(d)[:120]) for w, d in snap.diff(sandbox)]}


def order_signature(log):
    keep = []
    for e in log:
        parts = e.split(':')
        if parts[0] in ('G', 'Z1', 'Z2') and parts[1] in ('_stop_mocking', '_stop_patches', '_capture_exception', '_start_mocking', 'terminate',
                                                            '_execute_with_timeout', '_execute', '_finish_execution'):
            if parts[1] == '_execute' and parts[0] == 'G' and parts[2] == 'start':
                continue
            keep.append('%s.%s.%s' % (parts[0], parts[1].strip('_'), parts[2][0]))
    return ' '.join(keep)[:900]


def idx(log, item, nth=1):
    n = 0
    for i, e in enumerate(log):
        if e == item:
            n += 1
            if n == nth:
                return i
    return None


def confirm_order(inter, log, entry):
    zs = idx(log, 'Z1:%s:start' % zombie_handler_fn())
    zdone = idx(log, 'Z1:_execute:return')
    if zdone is None:
        zdone = idx(log, 'Z1:_execute:unwind')
    gh = idx(log, 'G:_capture_exception:start')     # the grader's timeout handler records the timeout
    gret = idx(log, 'G:_execute_with_timeout:return')
    if inter == 'zombie-first':
        rel = idx(log, 'G:released-after:zombie-done')
        return zdone is not None and rel is not None and zdone < rel and (gh is None or rel < gh)
    if inter == 'grader-first':
        rel = idx(log, 'Z1:released-after:grader-returned')
        return zs is not None and gret is not None and rel is not None and gret < rel
    if inter == 'zombie-during-next':
        ns = idx(log, 'G:_start_mocking:return', 1)
        rel = idx(log, 'G:released-after:zombie-done')
        return zs is not None and ns is not None and zdone is not None and rel is not None and ns < zdone < rel
    if inter == 'zombie-after-next':
        nr = idx(log, 'flag:next-returned')
        return zs is not None and nr is not None and zdone is not None and nr < zdone
    if inter == 'zombie-between-numbering-and-recording-of-next':
        g2 = idx(log, 'G:_execute:start', 2)
        rel = idx(log, 'G:released-after:zombie-done')
        return zs is not None and g2 is not None and zdone is not None and rel is not None and g2 < zdone < rel
    if inter == 'outer-interrupt-before-inner':
        zt = idx(log, 'Z1:terminate:start')
        gt = idx(log, 'G:terminate:return')
        # either Z1 was held right before interrupting Z2 until the grader's interrupt was on its way, or the grader's limit
        # expired first anyway and Z1 never got as far as interrupting Z2
        ztr = idx(log, 'Z1:terminate:return')
        return gt is not None and (ztr is None or gt < ztr)
    return True


def program_family(prog):
    if prog == 'swallow-then-finish':
        return 'student-thread-survives-the-interrupt-and-prints'
    return prog


def public(case):
    return {k: v for k, v in case.items() if not k.startswith('_')}


def case_label(case):
    return '%s/%s/%s/%.2f/%s/%s/%s/%s%s' % (case['program'], case['entry'], case['interleaving'], case['allowed_time'], ','.join(case['next']),
                                             case.get('history', 'fresh'), case.get('threaded_via', 'argument'), case.get('tracer', 'none'),
                                             ('/own-report' if case.get('report') == 'own' else '') + ('/late-import' if case.get('import_after') else ''))


def all_cases(ctx):
    rng = ctx.rng
    cases = []
    progs = list(PROGRAMS) + ['block-forever']
    for prog in progs:
        for entry in ENTRIES:
            for inter in INTERLEAVINGS:
                if prog == 'block-forever' and inter != 'unforced':
                    continue
                if prog == 'one-long-builtin-call' and (inter != 'unforced' or entry == 'import'):
                    continue        # (nothing can be ordered while it runs: no other thread gets to run at all)
                if prog == 'endless-loop-in-the-__str__-of-its-exception':
                    continue        # (run once, as the last case of one worker: see run())
                if inter == 'outer-interrupt-before-inner' and entry != 'import':
                    continue
                if inter == 'zombie-between-numbering-and-recording-of-next' and (entry == 'import' or prog == 'swallow-then-finish'):
                    continue
                if entry == 'import' and inter in ('unforced', 'outer-interrupt-before-inner'):
                    # nested student threads (Sandbox.threaded = True: the import of the helper file gets a thread and a limit of
                    # its own); the other named interleavings are defined for one student thread
                    cases.append({'program': prog, 'entry': entry, 'interleaving': inter, 'threaded_via': 'attribute'})
                    if inter == 'unforced' and prog in ('print-loop', 'busy-loop', 'print-first-then-loop', 'nested-function-loop'):
                        cases.append({'program': prog, 'entry': entry, 'interleaving': inter, 'threaded_via': 'attribute', 'late_import': True})
                    if inter == 'outer-interrupt-before-inner':
                        continue
                cases.append({'program': prog, 'entry': entry, 'interleaving': inter})
    return cases


def run(ctx):
    from props import sbx_common as sc
    import shutil
    d = sc.private_cwd()
    try:
        _run(ctx)
    finally:
        # (the worker may leave without running exit handlers, student threads still alive)
        os.chdir('/')
        shutil.rmtree(d, ignore_errors=True)


def _run(ctx):
    from props import sbx_common as sc
    rng = ctx.rng
    cases = all_cases(ctx)
    mine = cases[ctx.shard::ctx.nshards]
    reps = ctx.pick(1, 6)
    for rep in range(reps):
        for c in mine:
            if ctx.time_left() < 12:
                ctx.count('cases_not_reached_budget')
                break
            case = dict(c)
            case['allowed_time'] = rng.choice([0.05, 0.1, 0.2, 0.3])
            k = rng.sample(NEXT_KINDS, 3)
            # the first later execution must run in the grader thread to be gated - and it runs before the abandoned thread is known
            # to have ended, where one more timeout (and its feedback) would blur what is counted there
            k.sort(key=lambda x: (x == 'run-times-out-again', x == 'run-threaded'))
            if c['interleaving'] == 'zombie-between-numbering-and-recording-of-next':
                k = [rng.choice(['call-add', 'evaluate-expr'])] + [x for x in k if x not in ('call-add', 'evaluate-expr')][:2]
            case['next'] = k
            case['history'] = rng.choice(HISTORIES)
            if c.get('late_import'):
                case['allowed_time'] = rng.choice([0.3, 0.4])
                case['import_after'] = round(case['allowed_time'] * 0.7, 3)
                case['next'] = ['run-long'] + [x for x in k if x != 'run-long'][:2]
            # the environments switch the line tracer on by default: the interrupt then mostly lands inside the trace callback
            case['tracer'] = rng.choice(['none', 'native', 'native']) if c['interleaving'] in ('unforced', 'grader-first', 'zombie-after-next') else 'none'
            if c['entry'] == 'import' and c.get('threaded_via') != 'attribute' and c['interleaving'] == 'unforced' and rng.random() < 0.7 and \
                    c['program'] in ('busy-loop', 'print-loop', 'finite-but-long', 'nested-function-loop', 'loop-in-try-finally', 'print-first-then-loop'):
                # (the other file is imported in the thread that runs the main file: the measurement is entered twice there)
                case['tracer'] = 'coverage'
                case['allowed_time'] = 0.6          # (setting the measurement up takes a while: the program is to be running when the time is up)
                k = [x for x in k if x not in ('run-times-out-again', 'run-threaded')][:1] + ['run-times-out-again'] + [x for x in k if x != 'run-times-out-again'][1:2]
                case['next'] = k
            if 'threaded_via' not in case:
                case['threaded_via'] = rng.choice(['argument', 'attribute']) if c['entry'] != 'import' else 'argument'
            case['report'] = 'own' if rng.random() < 0.2 else 'default'
            run_case(ctx, case)
            if _CONTAMINATED[0]:
                ctx.count('worker_stopped_after_a_student_thread_was_left_running')
                ctx.note('a student thread was left running by %s; this worker stops here' % case_label(case))
                return
    finite = [{'program': p, 'entry': e, 'kind': 'deadline', 'variant': v} for p in FINITE for e in ('run', 'call', 'evaluate')
              for v in ('inside-its-own-finish', 'between-disown-and-interrupt', 'between-lookup-and-interrupt')]
    for rep in range(ctx.pick(1, 4)):
        for c in finite[ctx.shard::ctx.nshards]:
            if ctx.time_left() < 12:
                break
            case = dict(c)
            case['allowed_time'] = rng.choice([0.05, 0.1, 0.2])
            case['next'] = rng.sample([k for k in NEXT_KINDS], 2)
            run_deadline_case(ctx, case)
    if ctx.shard == ctx.nshards - 1:
        ctx.at_end = {'program': 'endless-loop-in-the-__str__-of-its-exception', 'entry': 'run', 'interleaving': 'unforced', 'allowed_time': 0.2,
                      'next': ['run-print', 'run-input', 'run-long'], 'history': 'fresh', 'tracer': 'none', 'threaded_via': 'argument', 'report': 'default'}
    for rep in range(ctx.pick(1, 4)):
        for c in preparing_cases()[ctx.shard::ctx.nshards]:
            if ctx.time_left() < 12:
                break
            case = dict(c)
            # (starting a measurement of coverage takes a while: the thread is to be there when the time runs out)
            case['allowed_time'] = rng.choice([0.05, 0.1, 0.2]) if PREPARING[c['where']][2] != 'coverage' else 0.4
            # (a program that never began has not defined its functions either)
            case['next'] = rng.sample([k for k in NEXT_KINDS if c['entry'] != 'run' or k.startswith('run-')], 2)
            case['tracer'] = PREPARING[c['where']][2] or rng.choice(['none', 'none', 'native', 'calls', 'coverage'])
            run_preparing_case(ctx, case)
    if getattr(ctx, 'at_end', None):
        # (if the call does not come back the worker ends here: nothing may come after this case)
        run_case(ctx, ctx.at_end)


def preparing_cases():
    return [{'kind': 'preparing', 'where': w, 'entry': e} for w in PREPARING for e in ('run', 'call', 'evaluate')]


def replay(ctx, case):
    if case.get('kind') == 'preparing':
        run_preparing_case(ctx, case)
    elif case.get('kind') == 'deadline':
        run_deadline_case(ctx, case)
    else:
        run_case(ctx, case)
