"""Reference model of the simple resolver, written from the statements of
C01-C03 and pedal's documentation (docsrc/teachers/quickstart.rst,
docsrc/developers/ffs.rst), not from pedal/resolvers/simple.py.

The model reads only the *inputs* of a resolve: the feedback objects' public
attributes and the report's suppression registry.
"""
from fractions import Fraction
import re

# documented order (quickstart.rst "priority", ffs.rst "default priority list")
ORDER = ['highest', 'syntax', 'mistakes', 'instructor', 'algorithmic', 'runtime',
         'student', 'specification', 'positive', 'instructions', 'uncategorized', 'lowest']
ALIASES = {'parser': 'syntax', 'verifier': 'syntax', 'instructor': 'instructor',
           'analyzer': 'algorithmic'}
SHIFT = {'high': 0, 'medium': 1, 'low': 2}
DEFAULT_LABEL = 'set_correct_no_errors'
DEFAULT_PAIRS = {('Complete', 'Great work!'), ('No Errors', 'No errors reported.')}
NEGATIVE = -1
COMPLIMENT = 'Compliment'

SCORE_RE = re.compile(r'^([+\-])?(\d+(?:\.\d+)?|\.\d+)(%)?$')


class Unmodelled(Exception):
    """The report uses a feature the statement does not define; skip."""


def rank(fb):
    cat = fb.category
    if cat is None:
        cat = 'uncategorized'
    if not isinstance(cat, str):
        raise Unmodelled('non-str category')
    cat = cat.lower()
    pr = fb.priority
    if pr is None:
        pr = 'medium'
    if not isinstance(pr, str):
        raise Unmodelled('non-str priority')
    pr = pr.lower()
    pr = ALIASES.get(pr, pr)
    base = ORDER.index(cat) if cat in ORDER else len(ORDER)
    if pr in ORDER:
        return (ORDER.index(pr), SHIFT['medium'])
    if pr not in SHIFT:
        raise Unmodelled('undocumented priority %r' % pr)
    return (base, SHIFT[pr])


def suppression_reason(fb, suppressions, suppressed_labels):
    """Return None if the feedback is not suppressed, else a short reason."""
    cat = fb.category if fb.category is not None else 'uncategorized'
    cat = cat.lower()
    fields = fb.fields if isinstance(fb.fields, dict) else {}
    for scat, labels in suppressions.items():
        if scat != cat:
            continue
        for slabel, fieldsets in labels.items():
            if slabel is True:
                return 'category'
            if isinstance(slabel, str) and isinstance(fb.label, str) and slabel.lower() == fb.label.lower():
                for fs in fieldsets:
                    if all(fields.get(k, None) == v for k, v in fs.items()):
                        return 'category+label' + ('+fields' if fs else '')
    if fb.label in suppressed_labels:
        for fs in suppressed_labels[fb.label]:
            if all(fields.get(k, None) == v for k, v in fs.items()):
                return 'label' + ('+fields' if fs else '')
    return None


def parse_score(score):
    """-> Fraction contribution when awarded, or raises Unmodelled."""
    if isinstance(score, bool):
        raise Unmodelled('bool score')
    if isinstance(score, int):
        return Fraction(score)
    if isinstance(score, float):
        if score != score or score in (float('inf'), float('-inf')):
            raise Unmodelled('non-finite score')
        return Fraction(repr(score))
    if isinstance(score, str):
        m = SCORE_RE.match(score.strip())
        if not m:
            raise Unmodelled('score form %r outside the statement' % score)
        v = Fraction(m.group(2))
        if m.group(3):
            v = v / 100
        if m.group(1) == '-':
            v = -v
        return v
    raise Unmodelled('score type %s' % type(score).__name__)


class Expected:
    pass


def requested_tables(requested):
    """The suppression tables as the documentation of suppress() defines them, built from what the instructor ASKED for
    (not read back from the report): a category is case-insensitive and may be a tool-name alias; with a category the label is
    case-insensitive; without one the label is taken as given; no label means the whole category."""
    sup, suplab = {}, {}
    for s in requested:
        fields = dict(s.get('fields') or {})
        if s.get('category') is None:
            suplab.setdefault(s.get('label', True), []).append(fields)
        else:
            cat = s['category'].lower()
            cat = ALIASES.get(cat, cat)
            label = s.get('label', True)
            if isinstance(label, str):
                label = label.lower()
            sup.setdefault(cat, {}).setdefault(label, []).append(fields)
    return sup, suplab


def expected(report, requested=None):
    """Compute the expected outcome of resolving `report`."""
    fbs = list(report.feedback) + list(report.ignored_feedback)
    triggered = list(report.feedback)
    on_triggered_list = {id(fb) for fb in triggered}      # the report's own record of the outcome - not the object's __bool__
    if requested is None:
        sup, suplab = report.suppressions, report.suppressed_labels
    else:
        sup, suplab = requested_tables(requested)
    e = Expected()
    e.status = {}
    eligible = []
    for i, fb in enumerate(triggered):
        why = suppression_reason(fb, sup, suplab)
        if why:
            e.status[id(fb)] = 'suppressed:' + why
        elif fb.muted:
            e.status[id(fb)] = 'muted'
        elif fb.kind == COMPLIMENT:
            e.status[id(fb)] = 'compliment'
        else:
            e.status[id(fb)] = 'eligible'
            eligible.append((rank(fb), i, fb))
    for fb in report.ignored_feedback:
        why = suppression_reason(fb, sup, suplab)
        e.status[id(fb)] = ('suppressed:' + why) if why else 'untriggered'
    eligible.sort(key=lambda t: (t[0], t[1]))
    e.eligible = [fb for _, _, fb in eligible]
    e.ranks = {id(fb): r for r, _, fb in eligible}
    e.winner = e.eligible[0] if e.eligible else None
    e.correct = all(bool(fb.correct) for fb in e.eligible)
    hidden = bool(sup.get('correct', sup.get('success', False)))
    e.hidden = hidden
    e.default_all_correct = (e.winner is None) and not hidden
    # a feedback that itself looks like the default result makes the statement ambiguous
    for fb in e.eligible:
        if fb.label == DEFAULT_LABEL:
            raise Unmodelled('eligible feedback carries the default label')
    # score
    total = Fraction(0)
    e.contrib = []
    e.score_unmodelled = None
    for fb in fbs:
        st = e.status[id(fb)]
        if st.startswith('suppressed'):
            continue
        if fb.unscored or fb.score is None:
            continue
        try:
            v = parse_score(fb.score)
        except Unmodelled as u:
            e.score_unmodelled = str(u)
            continue
        trig = id(fb) in on_triggered_list
        neg = (fb.valence == NEGATIVE)
        awarded = (trig and not neg) or (neg and not trig)
        e.contrib.append((fb, v, awarded))
        if awarded:
            total += v
    e.score = Fraction(1) if e.default_all_correct else total
    return e


def _overridden_default():
    # environments may re-word the success message with set_correct.override(...)
    try:
        from pedal.core.commands import set_correct
        return {(set_correct.title, set_correct.message_template)}
    except Exception:
        return set()


def round2(fr):
    """Round a Fraction to 2 decimals; None when it sits on a rounding tie
    (float representation then decides, which the statement does not fix)."""
    scaled = fr * 100
    fl = scaled.numerator // scaled.denominator
    rem = scaled - fl
    if rem == Fraction(1, 2):
        return None
    return Fraction(fl + (1 if rem > Fraction(1, 2) else 0), 100)


def check(report, final, which=('C01', 'C02', 'C03'), requested=None):
    """Compare a FinalFeedback with the model. Returns list of (prop, key, detail).
    Raises Unmodelled when the report is outside the statement."""
    e = expected(report, requested)
    out = []
    if 'C01' in which:
        if e.winner is None:
            if final.label != DEFAULT_LABEL:
                st = 'unknown'
                for fb in list(report.feedback) + list(report.ignored_feedback):
                    if fb.label == final.label and fb.message == final.message:
                        st = e.status.get(id(fb), 'unknown')
                        break
                out.append(('C01', 'C01|shown-ineligible|' + st.split('+fields')[0] + ('+fields' if '+fields' in st else ''),
                            'no feedback is eligible but label=%r was shown (status of that feedback: %s)' % (final.label, st)))
            elif (final.title, final.message) not in DEFAULT_PAIRS | _overridden_default():
                out.append(('C01', 'C01|default-text', 'default result has title/message %r/%r' % (final.title, final.message)))
        else:
            w = e.winner
            exp = (w.title or w.label, w.message, w.label)
            got = (final.title, final.message, final.label)
            if got != exp:
                # find which feedback was shown instead
                shown = None
                for fb in list(report.feedback) + list(report.ignored_feedback):
                    if (fb.title or fb.label, fb.message, fb.label) == got:
                        shown = fb
                        break
                if final.label == DEFAULT_LABEL:
                    key = 'C01|eligible-feedback-not-shown'
                elif shown is None:
                    key = 'C01|shown-text-from-no-feedback'
                else:
                    st = e.status.get(id(shown), 'unknown')
                    if st == 'eligible':
                        if e.ranks[id(shown)] == e.ranks[id(w)]:
                            key = 'C01|tie-not-first-created'
                        else:
                            key = 'C01|outranked-feedback-shown'
                    else:
                        key = 'C01|shown-ineligible|' + st
                out.append(('C01', key, 'expected %r, got %r' % (exp, got)))
    if 'C02' in which:
        for name, val in (('correct', final.correct), ('success', final.success)):
            if val is not True and val is not False or val != e.correct:
                out.append(('C02', 'C02|%s-flag|expected-%s' % (name, e.correct),
                            'final.%s=%r but model says %r (eligible: %s)' %
                            (name, val, e.correct, [(fb.label, fb.correct) for fb in e.eligible])))
                break
        try:
            j = final.to_json()
            if j.get('correct') != e.correct or j.get('success') != e.correct:
                out.append(('C02', 'C02|to_json-flag|expected-%s' % e.correct,
                            'to_json correct/success = %r/%r' % (j.get('correct'), j.get('success'))))
        except Exception as ex:  # pragma: no cover
            out.append(('C02', 'C02|to_json-raises|%s' % type(ex).__name__, repr(ex)))
    if 'C03' in which and e.score_unmodelled is None:
        want = round2(e.score)
        got = final.score
        if want is not None:
            ok = isinstance(got, (int, float)) and not isinstance(got, bool) and abs(Fraction(repr(float(got))) - want) < Fraction(1, 1000)
            if not ok:
                feats = sorted({score_feature(fb) for fb, v, awarded in e.contrib})
                diff = Fraction(repr(float(got))) - want if isinstance(got, (int, float)) and not isinstance(got, bool) else None
                if e.default_all_correct:
                    feat = 'default-result'
                elif any(f.startswith('float-exponent-repr') for f in feats):
                    feat = 'float-exponent-repr'
                elif not e.contrib:
                    feat = 'no-scored-feedback'
                else:
                    feat = None
                    if diff is not None:
                        for fb, v, awarded in e.contrib:
                            cands = {'dropped': -v, 'sign-flipped': -2 * v} if awarded else {'wrongly-added': v, 'wrongly-subtracted': -v}
                            for how, d in cands.items():
                                if v != 0 and abs(diff - d) < Fraction(1, 100):
                                    feat = 'one-feedback-%s:%s' % (how, score_feature(fb))
                                    break
                            if feat:
                                break
                    if feat is None:
                        feat = 'unexplained-total' if len(e.contrib) > 1 else 'single:' + feats[0]
                out.append(('C03', 'C03|score|' + feat,
                            'final.score=%r, model=%s; contributions=%s' %
                            (got, float(want), [(fb.label, repr(fb.score), fb.valence, bool(fb), aw) for fb, v, aw in e.contrib])))
    return out, e


def score_feature(fb):
    s = fb.score
    if isinstance(s, float) and 'e' in repr(s):
        form = 'float-exponent-repr'
    elif isinstance(s, (int, float)):
        form = 'number' + ('-neg' if s < 0 else '')
    else:
        form = ('minus' if s.strip().startswith('-') else 'plus') + ('-percent' if s.strip().endswith('%') else '')
    val = 'neg' if fb.valence == NEGATIVE else 'nonneg'
    return '%s/%s/%s%s' % (form, val, 'trig' if bool(fb) else 'untrig', '/muted' if fb.muted else '')
