"""Universal monitor for C20: every Feedback construction anywhere (generated workload or the repository's tests) is
observed at the boundary of Feedback._handle_condition - the real condition()/_get_message() are spied on (instance
attribute shadowing, removed afterwards) so the monitor knows the true outcome without trusting pedal's own flags."""
import sys

_current = ['?']
_installed = [False]


def test_start(nodeid):
    _current[0] = nodeid


def occurrences(report, fb):
    return (sum(1 for x in report.feedback if x is fb), sum(1 for x in report.ignored_feedback if x is fb))


def install(ctx, prop='C20', on_violation=None):
    if _installed[0]:
        return
    _installed[0] = True
    from pedal.core.feedback import Feedback
    from pedal.core.feedback_category import FeedbackStatus
    original = Feedback._handle_condition

    def monitored_handle_condition(self):
        seen = {'cond': 'not-called', 'cond_value': None, 'cond_exc': None, 'msg_exc': None, 'msg_calls': 0}
        cls_condition = self.condition
        cls_get_message = self._get_message

        def spy_condition(*a, **k):
            try:
                r = cls_condition(*a, **k)
            except BaseException as e:
                seen['cond'] = 'raised'
                seen['cond_exc'] = e
                raise
            seen['cond'] = 'returned'
            seen['cond_value'] = r
            return r

        def spy_message():
            seen['msg_calls'] += 1
            try:
                return cls_get_message()
            except BaseException as e:
                if seen['msg_calls'] == 1 or seen.get('in_unused'):
                    seen['msg_exc'] = e
                raise
        shadow_ok = True
        try:
            object.__setattr__(self, 'condition', spy_condition)
            object.__setattr__(self, '_get_message', spy_message)
        except Exception:
            shadow_ok = False
        raised = None
        report = getattr(self, 'report', None)
        before = occurrences(report, self) if report is not None else (0, 0)
        try:
            return original(self)
        except BaseException as e:
            raised = e
            raise
        finally:
            for name in ('condition', '_get_message'):
                try:
                    object.__delattr__(self, name)
                except Exception:
                    pass
            try:
                if shadow_ok and report is not None:
                    judge(ctx, self, report, seen, raised, before, FeedbackStatus)
            except Exception as e:       # a monitor bug must never change behaviour
                ctx.note('feedback monitor error: %r' % e)
    Feedback._handle_condition = monitored_handle_condition


def judge(ctx, fb, report, seen, raised, before, FeedbackStatus):
    ctx.count('constructions_observed')
    cls = type(fb).__name__
    where = {'class': cls, 'label': getattr(fb, 'label', None), 'test': _current[0]}
    active, ignored = occurrences(report, fb)
    active -= before[0]
    ignored -= before[1]
    # an exception that comes from a report hook or a parent group callback after the object was recorded is a
    # different path (not "evaluating the condition or the message raises")
    from_condition_or_message = (seen['cond'] == 'raised' and raised is seen['cond_exc']) or \
                                (seen['msg_exc'] is not None and raised is seen['msg_exc'])
    if raised is not None and not from_condition_or_message:
        ctx.count('exceptions_from_hooks_or_groups_(not judged)')
        return
    if active + ignored != 1:
        ctx.violation('C20|recorded-%d-times|%s' % (active + ignored, 'error-path' if raised else 'normal-path'), where,
                      'added %d times to feedback and %d times to ignored_feedback' % (active, ignored))
        return
    if raised is None:
        if seen['cond'] != 'returned':
            ctx.count('condition_not_observed')
            return
        truth = bool(seen['cond_value'])
        ctx.case('%s|%s|cond=%s' % (cls, sorted(k for k in getattr(fb, 'fields', {}) or {})[:6], type(seen['cond_value']).__name__ + str(truth)))
        if (active == 1) != truth:
            ctx.violation('C20|wrong-list|condition-%s' % truth, where, 'condition() returned %r, object is in %s' %
                          (seen['cond_value'], 'feedback' if active else 'ignored_feedback'))
        if bool(fb) != truth:
            ctx.violation('C20|truth-value-differs|condition-%s' % truth, where, 'condition() returned %r, bool(feedback) is %r' % (seen['cond_value'], bool(fb)))
        want_status = FeedbackStatus.ACTIVE if truth else FeedbackStatus.INACTIVE
        if getattr(fb, '_status', None) != want_status:
            ctx.violation('C20|status-differs|condition-%s' % truth, where, 'status %r' % getattr(fb, '_status', None))
    else:
        which = 'condition' if seen['cond'] == 'raised' else 'message'
        ctx.case('%s|error-path|%s' % (cls, which))
        ctx.count('error_paths_observed')
        if active:
            ctx.violation('C20|error-path-recorded-as-triggered|%s-raised' % which, where, repr(raised)[:200])
        if getattr(fb, '_status', None) != FeedbackStatus.ERROR:
            ctx.violation('C20|error-path-status|%s-raised' % which, where, 'status %r' % getattr(fb, '_status', None))
        if bool(fb):
            ctx.violation('C20|error-path-truthy|%s-raised' % which, where, 'bool(feedback) is True')


def finish(ctx):
    pass
