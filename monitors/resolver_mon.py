"""Universal monitor: every simple.resolve() executed anywhere is compared with
the reference model (C01/C02/C03 projections)."""
import sys


def sweep_rebind(original, wrapper):
    n = 0
    for name, mod in list(sys.modules.items()):
        if mod is None or not name.startswith(('pedal', 'tests', 'test_')):
            continue
        d = getattr(mod, '__dict__', None)
        if not d:
            continue
        for k, v in list(d.items()):
            if v is original:
                d[k] = wrapper
                n += 1
    return n


def install(ctx, prop):
    from pedal.resolvers import simple
    from pedal.core.report import MAIN_REPORT
    from oracles import resolver_model as model
    original = simple.resolve
    default_key = simple.by_priority

    def monitored_resolve(*args, **kwargs):
        report = kwargs.get('report', args[0] if args else MAIN_REPORT)
        custom = ('priority_key' in kwargs and kwargs['priority_key'] is not default_key) or len(args) > 1
        try:
            final = original(*args, **kwargs)
        except Exception as ex:
            ctx.count('resolve_raised')
            if prop == 'C01':
                ctx.violation('C01|resolve-raises|%s|under-repo-tests' % type(ex).__name__,
                              {'kind': 'repo-test', 'test': _current[0]}, repr(ex))
            raise
        ctx.count('resolves_seen')
        if custom or getattr(report, 'pools', None):
            ctx.count('resolves_skipped_custom_key_or_pools')
            return final
        try:
            problems, e = model.check(report, final, which=(prop,))
        except model.Unmodelled as u:
            ctx.count('resolves_unmodelled')
            return final
        except Exception as ex:  # monitor bug must not change behaviour
            ctx.note('monitor error: %r' % ex)
            return final
        ctx.count('resolves_checked')
        nt = None
        if len(e.eligible) >= 2 or (len(report.feedback) + len(report.ignored_feedback)) >= 3:
            nt = 'repo-test:%s:%d' % (_current[0], ctx.counters.get('resolves_seen', 0))
        ctx.case(nt)
        for p, key, detail in problems:
            if p == prop:
                ctx.violation(key + '|under-repo-tests', {'kind': 'repo-test', 'test': _current[0]}, detail)
        return final
    simple.resolve = monitored_resolve
    n = sweep_rebind(original, monitored_resolve)
    ctx.count('resolve_references_rebound', n)


_current = ['?']


def test_start(nodeid):
    _current[0] = nodeid
