"""pytest plugin: run the repository's own tests with universal monitors attached.
Loaded with `-p monitors.pytest_plugin`; configuration through the environment:
  VERIF_MONITORS   comma separated monitor module names (monitors/<name>.py)
  VERIF_MONITOR_OUT  where to dump the observation context (JSON)
  VERIF_MONITOR_PROP property id the observations are for
"""
import importlib
import json
import os

_ctx = None
_mons = []


def pytest_configure(config):
    global _ctx
    from vlib.ctx import Ctx
    prop = os.environ.get('VERIF_MONITOR_PROP', 'C00')
    _ctx = Ctx(prop, os.environ.get('VERIF_TIER', 'quick'), 0, 0, 1)
    # import the bulk of pedal first so that the identity sweep sees every module
    for m in ('pedal', 'pedal.core.commands', 'pedal.resolvers', 'pedal.resolvers.simple', 'pedal.resolvers.full',
              'pedal.sandbox', 'pedal.sandbox.commands', 'pedal.assertions', 'pedal.source', 'pedal.tifa',
              'pedal.cait', 'pedal.environments.standard', 'pedal.environments.terminal', 'pedal.command_line.modes'):
        try:
            importlib.import_module(m)
        except Exception as e:  # pragma: no cover
            _ctx.note('import %s failed: %r' % (m, e))
    for name in [n for n in os.environ.get('VERIF_MONITORS', '').split(',') if n]:
        mod = importlib.import_module('monitors.' + name)
        mod.install(_ctx, prop)
        _mons.append(mod)


def pytest_runtest_setup(item):
    for m in _mons:
        if hasattr(m, 'test_start'):
            m.test_start(item.nodeid)


def pytest_sessionfinish(session, exitstatus):
    if _ctx is None:
        return
    for m in _mons:
        if hasattr(m, 'finish'):
            m.finish(_ctx)
    out = os.environ.get('VERIF_MONITOR_OUT')
    if out:
        with open(out, 'w') as f:
            json.dump(_ctx.dump(), f)
