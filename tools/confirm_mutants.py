#!/venv/bin/python
"""Confirm sub-agent produced mutants: for /tmp/wt/<PROP>/_mut/<k>/ apply patch in that scratch worktree,
run the repo test-suite (must equal baseline stable_pass), run demo (must FAIL), revert, run demo (must PASS).
Then store as /verif/seeded/<PROP>-<k>/ with meta.json."""
import json, os, shutil, subprocess, sys
import xml.etree.ElementTree as ET

base = json.load(open('/root/.vp/BASELINE.json'))
stable = set(base['stable_pass'])

def sh(cmd, cwd, timeout=900):
    p = subprocess.run(cmd, cwd=cwd, shell=True, stdout=subprocess.PIPE, stderr=subprocess.STDOUT, timeout=timeout)
    return p.returncode, p.stdout.decode('utf-8', 'replace')

def tests(wt):
    xml = os.path.join(wt, '_junit.xml')
    sh('/venv/bin/python -m pytest -q -p no:cacheprovider --timeout=900 --continue-on-collection-errors --junitxml=%s' % xml, wt)
    passed, other = set(), set()
    for tc in ET.parse(xml).getroot().iter('testcase'):
        name = '%s::%s' % (tc.get('classname'), tc.get('name'))
        bad = any(ch.tag in ('failure', 'error', 'skipped') for ch in tc)
        (other if bad else passed).add(name)
    os.unlink(xml)
    return passed

def main(props):
    for prop in props:
        wt = '/tmp/wt/%s' % prop
        for k in sorted(os.listdir(os.path.join(wt, '_mut'))):
            d = os.path.join(wt, '_mut', k)
            if not os.path.isdir(d) or not os.path.exists(os.path.join(d, 'patch.diff')):
                continue
            dest = '/verif/seeded/%s-%s' % (prop, k)
            if os.path.exists(os.path.join(dest, 'meta.json')):
                continue
            rc, out = sh('git status --porcelain --untracked-files=no', wt)
            if out.strip():
                print(prop, k, 'worktree dirty, skipping:', out[:200]); continue
            rc, out = sh('git apply _mut/%s/patch.diff' % k, wt)
            if rc != 0:
                print(prop, k, 'patch does not apply', out[-300:]); continue
            try:
                passed = tests(wt)
                missing = sorted(stable - passed)
                extra = sorted(passed - stable)
                rc_demo_mut, out_mut = sh('/venv/bin/python _mut/%s/demo.py' % k, wt, timeout=300)
            finally:
                sh('git checkout -- .', wt)
            rc_demo_clean, out_clean = sh('/venv/bin/python _mut/%s/demo.py' % k, wt, timeout=300)
            ok = (not missing and not extra and rc_demo_mut == 1 and rc_demo_clean == 0)
            print('%s-%s: tests missing=%d extra=%d demo(mutated)=%s demo(clean)=%s -> %s' % (
                prop, k, len(missing), len(extra), rc_demo_mut, rc_demo_clean, 'CONFIRMED' if ok else 'REJECTED'))
            if not ok:
                print('   ', missing[:3], out_mut[-200:].replace('\n', ' | '), '||', out_clean[-200:].replace('\n', ' | '))
                continue
            os.makedirs(dest, exist_ok=True)
            for f in ('patch.diff', 'demo.py', 'notes.md'):
                if os.path.exists(os.path.join(d, f)):
                    shutil.copy(os.path.join(d, f), os.path.join(dest, f))
            notes = open(os.path.join(d, 'notes.md')).read() if os.path.exists(os.path.join(d, 'notes.md')) else ''
            meta = {
                'property': prop, 'origin': 'independent sub-agent given only the property text and a scratch worktree',
                'base_commit': subprocess.run('git rev-parse --short HEAD', cwd=wt, shell=True, stdout=subprocess.PIPE).stdout.decode().strip(),
                'needs_to_manifest': notes.strip()[:1500],
                'confirmed': {
                    'tests': 'pytest in scratch worktree with patch applied: all %d baseline-stable tests pass, no extra passes' % len(stable),
                    'demo_with_patch': 'exit %d: %s' % (rc_demo_mut, out_mut.strip()[-300:]),
                    'demo_without_patch': 'exit %d: %s' % (rc_demo_clean, out_clean.strip()[-100:]),
                },
                'detected_by': None,
            }
            json.dump(meta, open(os.path.join(dest, 'meta.json'), 'w'), indent=1)

if __name__ == '__main__':
    main(sys.argv[1:])
