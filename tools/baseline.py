#!/venv/bin/python
"""Run the repository's pinned suite with the hook guard OFF and compare with
/root/.vp/BASELINE.json (stable_pass). Exit 0 iff every stable test passes."""
import json, os, subprocess, sys, tempfile
import xml.etree.ElementTree as ET

repo = os.environ.get('VERIF_REPO', '/repo')
base = json.load(open('/root/.vp/BASELINE.json')) if os.path.exists('/root/.vp/BASELINE.json') else None
d = tempfile.mkdtemp(prefix='verif-baseline-')
xml = os.path.join(d, 'junit.xml')
env = dict(os.environ)
env.pop('PEDAL_EDU_PEDAL_VERIF', None)
p = subprocess.run(['/venv/bin/python', '-m', 'pytest', '-ra', '-q', '-p', 'no:cacheprovider', '--timeout=900',
                    '--continue-on-collection-errors', '--junitxml=' + xml], cwd=repo, env=env,
                   stdout=subprocess.PIPE, stderr=subprocess.STDOUT)
tail = p.stdout.decode('utf-8', 'replace').splitlines()[-3:]
passed = set()
failed = set()
for tc in ET.parse(xml).getroot().iter('testcase'):
    name = '%s::%s' % (tc.get('classname'), tc.get('name'))
    bad = any(ch.tag in ('failure', 'error', 'skipped') for ch in tc)
    (failed if bad else passed).add(name)
import shutil; shutil.rmtree(d, ignore_errors=True)
print('\n'.join(tail))
if base is None:
    print('passed=%d (no BASELINE.json to compare)' % len(passed)); sys.exit(0)
stable = set(base['stable_pass'])
missing = sorted(stable - passed)
print('stable=%d passed_of_stable=%d other_passed=%d' % (len(stable), len(stable & passed), len(passed - stable)))
for m in missing[:30]:
    print('NOT PASSING:', m)
sys.exit(1 if missing else 0)
