#!/venv/bin/python
"""setup_cmd: nothing to build; verify the interpreter and that the target tree imports."""
import os, subprocess, sys
repo = os.environ.get('VERIF_REPO', '/repo')
code = "import sys; sys.path.insert(0, %r); import pedal, os; print(os.path.realpath(pedal.__file__))" % repo
out = subprocess.run(['/venv/bin/python', '-c', code], stdout=subprocess.PIPE, stderr=subprocess.STDOUT, cwd='/')
txt = out.stdout.decode().strip()
print('python', sys.version.split()[0], 'pedal at', txt)
sys.exit(0 if out.returncode == 0 and txt.startswith(os.path.realpath(repo)) else 1)
