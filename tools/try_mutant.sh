#!/bin/sh
# usage: tools/try_mutant.sh <patch.diff> <PROP> [tier]   -- apply to /repo, run check, always revert
PATCH="$1"; PROP="$2"; TIER="${3:-quick}"
cd /repo || exit 3
if [ -n "$(git status --porcelain --untracked-files=no)" ]; then echo "repo dirty, refusing"; exit 3; fi
if ! git apply --3way "$PATCH" 2>/tmp/apply.err; then echo "PATCH DOES NOT APPLY: $(cat /tmp/apply.err | tail -2)"; git checkout -q -- . ; git reset -q; exit 4; fi
git reset -q
cd /verif && ./check "$PROP" --tier "$TIER" --no-evidence > /tmp/mutant.out 2>&1
RC=$?
cd /repo && git checkout -q -- . && git status --porcelain --untracked-files=no | head -3
echo "rc=$RC $(grep -c '^VIOLATION' /tmp/mutant.out) violation lines; keys:"
grep "violation key" /tmp/mutant.out | cut -c1-260 | head -6
grep -E "^(INCONCLUSIVE|HELD)" /tmp/mutant.out | cut -c1-300
exit $RC
