#!/venv/bin/python
"""Re-base seeded patches (written against the pinned snapshot 6daa110) onto /repo's HEAD after fix: commits:
three-way merge of each touched file (base = snapshot, theirs = snapshot+patch, ours = HEAD). A patch that merges
cleanly is rewritten in place (original kept as patch.orig.diff); conflicts are reported for manual porting."""
import os, re, subprocess, sys, tempfile, shutil
HERE = os.path.dirname(os.path.dirname(os.path.abspath(__file__)))
BASE = '6daa110'

def sh(cmd, cwd=None, inp=None):
    p = subprocess.run(cmd, cwd=cwd, input=inp, stdout=subprocess.PIPE, stderr=subprocess.STDOUT)
    return p.returncode, p.stdout.decode('utf-8', 'replace')

def main(ids):
    for sid in ids:
        d = os.path.join(HERE, 'seeded', sid)
        patch = os.path.join(d, 'patch.diff')
        try:
            import json
            BASE = json.load(open(os.path.join(d, 'meta.json'))).get('base_commit') or '6daa110'
        except Exception:
            BASE = '6daa110'
        # does it already apply to HEAD?
        rc, _ = sh(['git', 'apply', '--check', patch], cwd='/repo')
        if rc == 0:
            print(sid, 'applies'); continue
        orig = os.path.join(d, 'patch.orig.diff')
        src = orig if os.path.exists(orig) else patch
        files = re.findall(r'^\+\+\+ b/(\S+)', open(src).read(), re.M)
        tmp = tempfile.mkdtemp(prefix='verif-port-')
        try:
            sh(['git', 'init', '-q', tmp])
            for f in files:
                os.makedirs(os.path.dirname(os.path.join(tmp, f)), exist_ok=True)
                rc, txt = sh(['git', 'show', '%s:%s' % (BASE, f)], cwd='/repo')
                open(os.path.join(tmp, f), 'w').write(txt if rc == 0 else '')
            sh(['git', 'add', '-A'], cwd=tmp); sh(['git', '-c', 'user.email=a@b', '-c', 'user.name=a', 'commit', '-qm', 'base'], cwd=tmp)
            rc, out = sh(['git', 'apply', src], cwd=tmp)
            if rc != 0:
                print(sid, 'does not apply to the snapshot either:', out[-200:]); continue
            ok = True
            merged = {}
            for f in files:
                base = subprocess.run(['git', 'show', 'HEAD:' + f], cwd=tmp, stdout=subprocess.PIPE).stdout
                theirs = open(os.path.join(tmp, f), 'rb').read()
                ours = open(os.path.join('/repo', f), 'rb').read()
                fb, ft, fo = [os.path.join(tmp, n) for n in ('b.tmp', 't.tmp', 'o.tmp')]
                open(fb, 'wb').write(base); open(ft, 'wb').write(theirs); open(fo, 'wb').write(ours)
                rc, out = sh(['git', 'merge-file', '-p', fo, fb, ft])
                if rc != 0:
                    ok = False
                    print(sid, 'CONFLICT in', f)
                merged[f] = out
            if not ok:
                continue
            # produce the new diff against HEAD
            work = tempfile.mkdtemp(prefix='verif-port2-')
            try:
                sh(['git', 'init', '-q', work])
                for f in files:
                    os.makedirs(os.path.dirname(os.path.join(work, f)), exist_ok=True)
                    shutil.copy(os.path.join('/repo', f), os.path.join(work, f))
                sh(['git', 'add', '-A'], cwd=work); sh(['git', '-c', 'user.email=a@b', '-c', 'user.name=a', 'commit', '-qm', 'head'], cwd=work)
                for f in files:
                    open(os.path.join(work, f), 'w').write(merged[f])
                rc, diff = sh(['git', 'diff'], cwd=work)
                if not diff.strip():
                    print(sid, 'merge produced no change (already subsumed by a fix?)'); continue
                if not os.path.exists(orig):
                    shutil.copy(patch, orig)
                open(patch, 'w').write(diff)
                print(sid, 'ported')
            finally:
                shutil.rmtree(work, ignore_errors=True)
        finally:
            shutil.rmtree(tmp, ignore_errors=True)

if __name__ == '__main__':
    ids = sys.argv[1:] or sorted(os.listdir(os.path.join(HERE, 'seeded')))
    main(ids)
