#!/venv/bin/python
"""Run a property's check against seeded changes, each applied to a scratch COPY of /repo (never /repo itself).

usage: tools/seeded.py [--tier quick] [--props C05,C06] [--ids C05-1,...] [--update-meta] [--jobs N]
Prints one line per seeded change: caught (exit 1 + VIOLATION) / MISSED (exit 0) / inconclusive (exit 2).
"""
import argparse, json, os, shutil, subprocess, sys, tempfile, concurrent.futures as cf
HERE = os.path.dirname(os.path.dirname(os.path.abspath(__file__)))


def run_one(sid, tier, jobs):
    d = os.path.join(HERE, 'seeded', sid)
    meta = json.load(open(os.path.join(d, 'meta.json')))
    prop = meta['property']
    if meta.get('neutralised'):
        # a later repair of the library removed the mechanism this change relied on: it no longer breaks the property (its own
        # demonstration passes with it applied), so there is nothing to catch
        return sid, prop, 'neutralised', meta['neutralised'][:120], []
    scratch = tempfile.mkdtemp(prefix='verif-seed-%s-' % sid)
    try:
        subprocess.run(['rsync', '-a', '--exclude', '.git', '/repo/', scratch + '/'], check=True)
        p = subprocess.run(['patch', '-p1', '-s', '--no-backup-if-mismatch', '-i', os.path.join(d, 'patch.diff')], cwd=scratch,
                           stdout=subprocess.PIPE, stderr=subprocess.STDOUT)
        if p.returncode != 0:
            return sid, prop, 'patch-failed', p.stdout.decode()[-300:], []
        env = dict(os.environ, VERIF_REPO=scratch, VERIF_JOBS=str(jobs))
        p = subprocess.run([os.path.join(HERE, 'check'), prop, '--tier', tier, '--no-evidence'], cwd=HERE, env=env,
                           stdout=subprocess.PIPE, stderr=subprocess.STDOUT, timeout=3600)
        out = p.stdout.decode('utf-8', 'replace')
        keys = [l.split('key=', 1)[1].split(' count=')[0] for l in out.splitlines() if l.strip().startswith('violation key=')]
        status = {0: 'MISSED', 1: 'caught', 2: 'inconclusive'}.get(p.returncode, 'rc=%s' % p.returncode)
        tail = ''
        if p.returncode == 2:
            tail = [l for l in out.splitlines() if l.startswith('INCONCLUSIVE')][-1:][0][:300] if 'INCONCLUSIVE' in out else out[-300:]
        return sid, prop, status, tail, keys
    finally:
        shutil.rmtree(scratch, ignore_errors=True)


def main():
    ap = argparse.ArgumentParser()
    ap.add_argument('--tier', default='quick')
    ap.add_argument('--props', default=None)
    ap.add_argument('--ids', default=None)
    ap.add_argument('--update-meta', action='store_true')
    ap.add_argument('--par', type=int, default=3)
    ap.add_argument('--jobs', type=int, default=6)
    a = ap.parse_args()
    ids = sorted(os.listdir(os.path.join(HERE, 'seeded')))
    if a.props:
        ps = a.props.split(',')
        ids = [i for i in ids if i.split('-')[0] in ps]
    if a.ids:
        ids = [i for i in ids if i in a.ids.split(',')]
    ids = [i for i in ids if os.path.exists(os.path.join(HERE, 'props', i.split('-')[0].lower() + '.py'))]
    with cf.ThreadPoolExecutor(max_workers=a.par) as ex:
        for sid, prop, status, tail, keys in ex.map(lambda i: run_one(i, a.tier, a.jobs), ids):
            print('%-8s %-12s %s %s' % (sid, status, tail, '; '.join(k[:110] for k in keys[:4])), flush=True)
            if a.update_meta and status != 'neutralised':
                mp = os.path.join(HERE, 'seeded', sid, 'meta.json')
                meta = json.load(open(mp))
                db = meta.get('detected_by') or {}
                if not isinstance(db, dict):
                    db = {}
                db[a.tier] = {'status': status, 'keys': keys[:6]}
                meta['detected_by'] = db
                json.dump(meta, open(mp, 'w'), indent=1)


if __name__ == '__main__':
    main()
