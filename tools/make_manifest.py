#!/venv/bin/python
"""Regenerate MANIFEST.json from the property modules present in props/."""
import importlib, json, os, sys
HERE = os.path.dirname(os.path.dirname(os.path.abspath(__file__)))
sys.path.insert(0, HERE)
props = [json.loads(l) for l in open(os.path.join(HERE, 'properties.jsonl'))]
checks, na = [], []
for p in props:
    pid = p['id']
    path = os.path.join(HERE, 'props', pid.lower() + '.py')
    if not os.path.exists(path):
        na.append({'property_id': pid, 'reason': 'check not built yet (work in progress); the property is decidable by runtime monitoring, see DESIGN.md section 4'})
        continue
    mod = importlib.import_module('props.' + pid.lower())
    if getattr(mod, 'NOT_CLAIMED', None):
        na.append({'property_id': pid, 'reason': mod.NOT_CLAIMED})
        continue
    checks.append({
        'property_id': pid,
        'quick_cmd': './check %s --tier quick' % pid,
        'thorough_cmd': './check %s --tier thorough' % pid,
        'evidence_file': 'evidence/%s.json' % pid,
        'replay_cmd_template': './check %s --replay {path}' % pid,
        'engine': 'vlib',
        'level_claimed': {'category': 'exploration', 'text': mod.LEVEL_TEXT, 'design_ref': 'DESIGN.md section 4, ' + pid},
        'level_note': mod.LEVEL_NOTE,
        'technique': mod.TECHNIQUE,
    })
manifest = {
    'version': 1,
    'setup_cmd': '/venv/bin/python tools/setup_check.py',
    'hooks': {
        'guard': 'PEDAL_EDU_PEDAL_VERIF',
        'enable': 'no build step: checks import /repo (VERIF_REPO) as the first sys.path entry in fresh interpreters with PEDAL_EDU_PEDAL_VERIF=1; all monitors attach from outside (class-attribute wrappers, module shims, sys.monitoring), see DESIGN.md section 2',
        'baseline_off_cmd': '/venv/bin/python tools/baseline.py',
        'source_commits': [],
        'add_only': True,
    },
    'engines': [{'name': 'vlib', 'path': 'vlib/', 'serves_properties': [c['property_id'] for c in checks],
                 'kind_free_text': 'runtime-monitoring harness: sharded fresh-interpreter workloads, external monitors/oracles, known-findings classifier, evidence writer'}],
    'checks': checks,
    'not_applicable': na,
    'notes': 'Three-valued verdicts: exit 0 held, exit 1 VIOLATION, exit 2 INCONCLUSIVE (never expected on the unchanged tree). Known findings: known_findings.json.',
}
json.dump(manifest, open(os.path.join(HERE, 'MANIFEST.json'), 'w'), indent=1)
print('checks:', [c['property_id'] for c in checks], 'not claimed:', [n['property_id'] for n in na])
